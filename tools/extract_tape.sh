#!/bin/sh
# usage: tools/extract_tape.sh <PROP> <fix-commit-in-/repo> [seed] [known-classes]
# Temporarily reverts a fix commit in /repo's working tree, runs the property's proptest engine,
# prints the shrunk failing tape, and restores /repo. Used to (re)generate corpus tapes after a
# generator change.
set -e
P=$1; C=$2; S=${3:-3}; K=$4
cd /verif/harness
git -C /repo show "$C" | git -C /repo apply -R
trap 'git -C /repo checkout -- .; cargo build --release --quiet --target-dir target/rel 2>/dev/null' EXIT
cargo build --release --quiet --target-dir target/rel 2>&1 | grep -E "^error" || true
target/rel/release/vcheck "$P" proptest --cases 30000 --seed "$S" ${K:+--known "$K"} | python3 -c "
import json,sys; d=json.load(sys.stdin); v=d['violation']
if not v: print('NO VIOLATION'); sys.exit(0)
print(v['class']); print(v['msg']); print(v['tape']); print(v['case'])"
