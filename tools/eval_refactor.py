#!/usr/bin/env python3
"""usage: tools/eval_refactor.py <worktree> <A|B> <PROP> [checks... | all]
A behaviour-preserving refactoring written by a sub-agent (refactor<X>.diff, refactor<X>_witness.rs,
refactor<X>.md in its scratch worktree) is (1) confirmed there: unit + doc tests pass with it, the witness
test passes with and without it; (2) applied to /repo, every quick check (default: all 20) is run, /repo is
restored; (3) stored under /verif/equivalent/agents/<PROP>-<wt><X>/ with the verdict of every check.
A check that exits non-zero here is either a false alarm of the machinery (to be fixed) or shows that the
refactoring is not behaviour-preserving after all (to be explained in meta.json: "verdict")."""
import json, os, re, shutil, subprocess, sys
ROOT = "/verif"
wt, X, prop = sys.argv[1], sys.argv[2], sys.argv[3]
which = sys.argv[4:] or ["all"]
sys.path.insert(0, ROOT)
from plan import PLAN
props = sorted(PLAN) if "all" in which else which
name = "%s-%s%s" % (prop, os.path.basename(wt.rstrip("/")), X)


def sh(cmd, cwd=None, timeout=3600):
    p = subprocess.run(cmd, shell=True, cwd=cwd, stdout=subprocess.PIPE, stderr=subprocess.STDOUT, text=True, timeout=timeout)
    return p.returncode, p.stdout


diff = "%s/refactor%s.diff" % (wt, X)
wit = "%s/refactor%s_witness.rs" % (wt, X)
if not os.path.exists(diff):
    print("no", diff)
    sys.exit(3)
# (1) confirm in the scratch worktree
sh("git checkout -q -- src; rm -rf tests; mkdir tests; cp %s tests/refactor%s_witness.rs" % (wit, X), cwd=wt)
_, base = sh("cargo test --offline --test refactor%s_witness 2>&1 | grep -E '^test result:' | head -1" % X, cwd=wt)
rc, out = sh("git apply %s" % diff, cwd=wt)
applied = rc == 0
_, lib = sh("cargo test --offline --lib 2>&1 | grep -E '^test result:' | head -1", cwd=wt)
_, doc = sh("cargo test --offline --doc 2>&1 | grep -E '^test result:' | head -1", cwd=wt)
_, mut = sh("cargo test --offline --test refactor%s_witness 2>&1 | grep -E '^test result:|error' | head -1" % X, cwd=wt)
sh("git checkout -q -- src; rm -rf tests", cwd=wt)
confirm = dict(witness_unchanged=base.strip(), lib_with_change=lib.strip(), doc_with_change=doc.strip(), witness_with_change=mut.strip())
ok = applied and "ok." in base and "ok. 60 passed" in lib and "ok." in doc and "ok." in mut
print(json.dumps(confirm, indent=1))
results = {}
if ok:
    rc, out = sh("git -C /repo diff --quiet")
    if rc != 0:
        print("/repo dirty, refusing")
        sys.exit(3)
    rc, out = sh("git -C /repo apply %s" % diff)
    if rc != 0:
        print("does not apply to /repo:", out)
        sys.exit(3)
    try:
        for p in props:
            rc, out = sh("./check %s quick" % p, cwd=ROOT)
            last = out.strip().splitlines()[-1] if out.strip() else ""
            classes = re.findall(r"failure class: (\S+)", out)
            msgs = [l.strip() for l in out.splitlines() if l.startswith("  ") and "failure class" not in l][:4]
            results[p] = dict(exit=rc, failure_classes=classes, summary=last, messages=msgs if rc else [])
            if rc:
                print("  %s: exit %d %s" % (p, rc, classes))
    finally:
        sh("git -C /repo checkout -- .")
d = os.path.join(ROOT, "equivalent", "agents", name)
os.makedirs(d, exist_ok=True)
shutil.copy(diff, d + "/patch.diff")
if os.path.exists(wit):
    shutil.copy(wit, d + "/witness.rs")
desc = open("%s/refactor%s.md" % (wt, X)).read() if os.path.exists("%s/refactor%s.md" % (wt, X)) else ""
open(d + "/description.md", "w").write(desc)
alarms = [p for p, r in results.items() if r["exit"] != 0]
meta = dict(name=name, written_for_property=prop,
            origin="behaviour-preserving refactoring written by a fresh sub-agent that saw only the property text and its own scratch worktree",
            confirmed=dict(valid=ok, **confirm), checks_run=results, alarms=alarms,
            verdict="no check raised an alarm" if ok and not alarms else ("NOT CONFIRMED in the scratch worktree" if not ok else "TO BE TRIAGED"))
json.dump(meta, open(d + "/meta.json", "w"), indent=1)
print("stored %s valid=%s alarms=%s" % (d, ok, alarms))
