#!/usr/bin/env python3
"""Regenerates the seeded-changes table of DESIGN.md (section 9) from seeded/*/meta.json."""
import glob, json, os, re
ROOT = os.path.dirname(os.path.dirname(os.path.abspath(__file__)))
rows = []
for d in sorted(glob.glob(os.path.join(ROOT, "seeded", "*"))):
    m = json.load(open(os.path.join(d, "meta.json")))
    desc = open(os.path.join(d, "description.md")).read().strip().splitlines()
    title = next((l.strip("# *").strip() for l in desc if l.strip()), "")
    title = re.sub(r"\s+", " ", title)[:150].replace("|", "/")
    ran = ", ".join("%s→%s" % (p, r["exit"]) for p, r in m["checks_run"].items())
    det = ", ".join(m["detected_by"]) or ("stale (see meta.json)" if m.get("stale") else "**none**")
    classes = sorted({c for r in m["checks_run"].values() for c in r["failure_classes"]})
    rows.append("| %s | %s | %s | %s | %s |" % (m["name"], m["property_broken"], title, det, "; ".join(classes)[:160]))
table = "| seeded change | breaks | what it is | detected by | failure classes reported |\n|---|---|---|---|---|\n" + "\n".join(rows)
n = len(rows)
missed = sum(1 for r in rows if "**none**" in r)
table += "\n\n%d seeded changes, %d detected by at least one check, %d not detected.\n" % (n, n - missed, missed)
p = os.path.join(ROOT, "DESIGN.md")
s = open(p).read()
i = s.index("<!-- SEEDED-TABLE-BEGIN -->")
j = s.index("<!-- SEEDED-TABLE-END -->")
s = s[:i] + "<!-- SEEDED-TABLE-BEGIN -->\n" + table + s[j:]
open(p, "w").write(s)
print("%d rows, %d missed" % (n, missed))
