#!/bin/bash
# Which lines of /repo/src does the quick tier of the checks execute at all?
# Builds vcheck with -C instrument-coverage (nightly + its llvm-tools) in a scratch target directory,
# runs every property's enumeration (part 0 of the quick split is not enough: all parts) and a slice
# of its generated cases, merges the profiles and writes
#   /verif/coverage/summary.txt     per-file line/region coverage of the crate
#   /verif/coverage/uncovered.txt   every uncovered source line outside #[cfg(test)] modules
# Generator gaps show up as uncovered branches of the crate; this is a diagnostic for the authors of
# the checks, not a check itself (it is not registered in MANIFEST.json).
#   tools/coverage.sh [cases-per-property, default 3000]
set -u
CASES=${1:-3000}
V=/verif
T=$(mktemp -d /tmp/vcov.XXXXXX)
trap 'rm -rf "$T"' EXIT
BIN=$HOME/.rustup/toolchains/nightly-x86_64-unknown-linux-gnu/lib/rustlib/x86_64-unknown-linux-gnu/bin
export CARGO_NET_OFFLINE=true
cd $V/harness
RUSTFLAGS="-C instrument-coverage" cargo +nightly build --offline --release --target-dir $T/target 2>&1 | tail -2
X=$T/target/release/vcheck
[ -x $X ] || { echo "build failed"; exit 2; }
IDS=$(python3 -c "import sys; sys.path.insert(0,'$V'); import plan; print(' '.join(sorted(plan.PLAN)))")
for id in $IDS; do
  (
    export LLVM_PROFILE_FILE=$T/prof/$id-%p.profraw
    for part in 0 1 2 3; do $X $id enum --part $part --parts 4 > /dev/null 2>&1 & done
    for chunk in 0 1 2 3; do $X $id proptest --cases $CASES --seed 0 --chunk $chunk > /dev/null 2>&1 & done
    for f in $V/corpus/$id/*.tape; do [ -f "$f" ] && $X $id replay $f > /dev/null 2>&1; done
    wait
  ) &
done
wait
$BIN/llvm-profdata merge -sparse $T/prof/*.profraw -o $T/all.profdata
mkdir -p $V/coverage
$BIN/llvm-cov report $X -instr-profile=$T/all.profdata $(ls /repo/src/*.rs) 2>/dev/null | sed 's#/repo/src/##' > $V/coverage/summary.txt
$BIN/llvm-cov show $X -instr-profile=$T/all.profdata $(ls /repo/src/*.rs) --show-line-counts-or-regions=false 2>/dev/null > $T/show.txt
python3 - $T/show.txt > $V/coverage/uncovered.txt <<'E'
import re, sys
cur = None; intest = False; out = []
for line in open(sys.argv[1], errors="replace"):
    line = line.rstrip("\n")
    m = re.match(r"^(/repo/src/\S+\.rs):$", line)
    if m:
        cur = m.group(1).split("/")[-1]; intest = False; continue
    m = re.match(r"^\s*(\d+)\|\s*([0-9.kKMG]*)\|(.*)$", line)
    if not m or cur is None:
        continue
    n, cnt, src = int(m.group(1)), m.group(2), m.group(3)
    if "#[cfg(test)]" in src:
        intest = True
    if intest:
        continue
    if cnt == "0":
        out.append("%s:%d: %s" % (cur, n, src))
print("\n".join(out))
E
mkdir -p $V/.work; cp $T/show.txt $V/.work/coverage_show.txt   # annotated source (git-ignored)
cat $V/coverage/summary.txt
echo "uncovered lines outside test modules: $(wc -l < $V/coverage/uncovered.txt)"
