#!/usr/bin/env python3
"""usage: tools/recheck_seeded.py --missed | --all | <name>...
Re-runs the checks recorded in seeded/<name>/meta.json against the seeded change (tools/try_mutant.sh)
and updates meta.json. A patch that no longer applies to /repo's HEAD (because a later fix: commit
touched the same lines) is recorded as stale."""
import glob, json, os, re, subprocess, sys
ROOT = "/verif"
args = sys.argv[1:]
names = []
for d in sorted(glob.glob(ROOT + "/seeded/*")):
    m = json.load(open(d + "/meta.json"))
    if "--all" in args or (("--missed" in args) and not m["detected_by"]) or os.path.basename(d) in args:
        names.append(os.path.basename(d))
head = subprocess.run(["git", "-C", "/repo", "rev-parse", "--short", "HEAD"], stdout=subprocess.PIPE, text=True).stdout.strip()
for n in names:
    d = os.path.join(ROOT, "seeded", n)
    m = json.load(open(d + "/meta.json"))
    props = list(m["checks_run"].keys()) or [m["property_broken"]]
    extra = [a for a in args if re.match(r"^C\d\d$", a)]
    for p in extra:
        if p not in props:
            props.append(p)
    chk = subprocess.run(["git", "-C", "/repo", "apply", "--check", d + "/patch.diff"], stdout=subprocess.PIPE, stderr=subprocess.STDOUT, text=True)
    if chk.returncode != 0:
        m["stale"] = "patch no longer applies to /repo HEAD %s (a later fix: commit changed the same code)" % head
        json.dump(m, open(d + "/meta.json", "w"), indent=1)
        print("%s: STALE" % n)
        continue
    m.pop("stale", None)
    for p in props:
        out = subprocess.run([ROOT + "/tools/try_mutant.sh", d + "/patch.diff", p], stdout=subprocess.PIPE, stderr=subprocess.STDOUT, text=True).stdout
        last = out.strip().splitlines()[-1] if out.strip() else ""
        classes = re.findall(r"failure class: (\S+)", out)
        mm = re.search(r"exit (\d)", last)
        m["checks_run"][p] = dict(exit=int(mm.group(1)) if mm else None, failure_classes=classes, summary=last)
    m["detected_by"] = [p for p, r in m["checks_run"].items() if r["exit"] == 1]
    m["rechecked_at_repo_head"] = head
    json.dump(m, open(d + "/meta.json", "w"), indent=1)
    print("%s: detected_by=%s %s" % (n, m["detected_by"], {p: r["failure_classes"] for p, r in m["checks_run"].items()}))
