#!/bin/sh
# usage: tools/verify_corpus.sh
# Every regression tape under corpus/ names the /repo commit that repaired its defect ("fixed in /repo <sha>").
# For each tape: revert that commit in /repo's working tree, replay the tape (release profile), expect a
# failure; restore /repo. A tape that no longer fails has been invalidated by a generator change and must be
# regenerated with tools/extract_tape.sh.
cd /verif/harness
if ! git -C /repo diff --quiet; then echo "/repo working tree is dirty, refusing"; exit 3; fi
BAD=0
for f in /verif/corpus/*/*.tape; do
  P=$(basename $(dirname $f))
  C=$(grep -o "fixed in /repo [0-9a-f]*" $f | head -1 | awk '{print $4}')
  [ -z "$C" ] && { echo "$f: no fix commit recorded"; continue; }
  git -C /repo show "$C" | git -C /repo apply -R || { echo "$f: cannot revert $C"; BAD=1; continue; }
  cargo build --release --quiet --offline --target-dir target/rel 2>&1 | grep -E "^error" 
  if [ "$C" = "c4a21b5" ]; then PROFILE_NOTE="(release profile: the wrap-around needs overflow checks off)"; fi
  OUT=$(target/rel/release/vcheck $P replay $f 2>/dev/null)
  if echo "$OUT" | grep -q '"violation":null'; then echo "STALE  $f (fix $C reverted, tape does not fail)"; BAD=1; else echo "ok     $f"; fi
  git -C /repo checkout -- .
done
cargo build --release --quiet --offline --target-dir target/rel 2>/dev/null
exit $BAD
