#!/usr/bin/env python3
"""usage: tools/eval_mutant.py <worktree> <A|B> <PROP> [more props or 'all']
Confirms a seeded change in its scratch worktree (tools/verify_mutant.sh), runs the given checks
against /repo with the change applied (tools/try_mutant.sh, /repo always restored), and stores the
change under /verif/seeded/<PROP>-<wt><X>/ with patch.diff, demo.rs, description.md and meta.json."""
import json, os, re, shutil, subprocess, sys
ROOT = "/verif"
wt, X, prop = sys.argv[1], sys.argv[2], sys.argv[3]
extra = sys.argv[4:]
sys.path.insert(0, ROOT)
from plan import PLAN
props = [prop] + [p for p in (sorted(PLAN) if "all" in extra else extra) if p != prop]
name = "%s-%s%s" % (prop, os.path.basename(wt.rstrip("/")), X)
v = subprocess.run([ROOT + "/tools/verify_mutant.sh", wt, X], stdout=subprocess.PIPE, stderr=subprocess.STDOUT, text=True).stdout
print(v.strip())
ok = ("demo on unchanged code : test result: ok" in v and "lib tests with change  : test result: ok. 60 passed" in v
      and "doc tests with change  : test result: ok" in v and ("demo with change       : test result: FAILED" in v))
results = {}
if ok:
    for p in props:
        out = subprocess.run([ROOT + "/tools/try_mutant.sh", "%s/mutant%s.diff" % (wt, X), p], stdout=subprocess.PIPE, stderr=subprocess.STDOUT, text=True).stdout
        last = out.strip().splitlines()[-1] if out.strip() else ""
        classes = re.findall(r"failure class: (\S+)", out)
        m = re.search(r"exit (\d)", last)
        results[p] = dict(exit=int(m.group(1)) if m else None, failure_classes=classes, summary=last)
        print("  %s: exit %s %s" % (p, results[p]["exit"], classes))
d = os.path.join(ROOT, "seeded", name)
os.makedirs(d, exist_ok=True)
shutil.copy("%s/mutant%s.diff" % (wt, X), d + "/patch.diff")
shutil.copy("%s/mutant%s_demo.rs" % (wt, X), d + "/demo.rs")
desc = open("%s/mutant%s.md" % (wt, X)).read() if os.path.exists("%s/mutant%s.md" % (wt, X)) else ""
open(d + "/description.md", "w").write(desc)
meta = dict(
    name=name, property_broken=prop, origin="written by a fresh sub-agent that saw only the property text and its own scratch worktree of /repo (HEAD %s)" % subprocess.run(["git", "-C", "/repo", "rev-parse", "--short", "HEAD"], stdout=subprocess.PIPE, text=True).stdout.strip(),
    needs_to_manifest=desc.strip()[:1500],
    confirmed=dict(valid=ok, how="tools/verify_mutant.sh in the scratch worktree: demo passes on unchanged code; with the change `cargo test --offline --lib` (60) and `--doc` (101) pass and the demo fails", output=v.strip().splitlines()),
    checks_run={p: r for p, r in results.items()},
    detected_by=[p for p, r in results.items() if r["exit"] == 1],
    ran="tools/try_mutant.sh (git -C /repo apply patch.diff; ./check <ID> quick; git -C /repo checkout -- .)",
)
json.dump(meta, open(d + "/meta.json", "w"), indent=1)
print("stored %s valid=%s detected_by=%s" % (d, ok, meta["detected_by"]))
