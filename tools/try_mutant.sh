#!/bin/sh
# usage: tools/try_mutant.sh <patch.diff> [tier] <PROP>...
# Applies a seeded change to /repo's working tree, checks that the crate's own tests still pass,
# runs the given checks, and always restores /repo afterwards. Never commits anything in /repo.
PATCH=$(readlink -f "$1"); shift
TIER=quick
case "$1" in quick|thorough) TIER=$1; shift;; esac
cd /verif
if ! git -C /repo diff --quiet; then echo "/repo working tree is dirty, refusing"; exit 3; fi
git -C /repo apply "$PATCH" || { echo "patch does not apply"; exit 3; }
trap 'git -C /repo checkout -- . ; git -C /repo clean -fdq -- tests 2>/dev/null' EXIT
( cd /repo && cargo test --offline --lib 2>&1 | grep -E "^test result" | head -1 )
for P in "$@"; do
  OUT=$(./check "$P" "$TIER" 2>&1)
  echo "$OUT" | grep -E "VIOLATION|failure class|INCONCLUSIVE" | head -4
  echo "$OUT" | tail -1
done
