#!/usr/bin/env python3
"""Systematic sensitivity sweep: first-order mutants of /repo/src (one token changed on one line),
each one (1) compiled and run through the crate's own 60 unit tests, and — if it survives them —
(2) run through the quick tier of the checks mapped to the file it touches.

  tools/mutation_sweep.py --workers 4 --count 300 --seed 1 --out /verif/sweep/sweep1.jsonl [--files a.rs,b.rs]

Every worker owns a scratch git worktree of /repo and a private copy of /verif whose harness points at
that worktree (under /tmp/mw/, removed at the end), so /repo itself is never touched and workers do not
interfere with each other or with interactive use of ./check. Results are appended to the JSONL file:
one record per mutant {file, line, before, after, crate_tests: pass|fail|nocompile, checks: {ID: exit},
killed_by: [...]}. Survivors (crate tests pass, no check exits 1) need manual triage: equivalent mutant
or a gap in the checks.
"""
import argparse, json, os, random, re, shutil, subprocess, sys, threading, time

SRC = "/repo/src"
MAP = {
    "smt_strings.rs": ["C06", "C08", "C09", "C17"],
    "character_sets.rs": ["C11", "C12", "C20", "C03", "C14"],
    "loop_ranges.rs": ["C15", "C01"],
    "automata.rs": ["C13", "C14", "C04", "C02"],
    "minimizer.rs": ["C04"],
    "partitions.rs": ["C04"],
    "fast_sets.rs": ["C04"],
    "compact_tables.rs": ["C14", "C04"],
    "matcher.rs": ["C10", "C06"],
    "smt_regular_expressions.rs": ["C10", "C01", "C07"],
    "regular_expressions.rs": ["C01", "C16", "C03", "C05", "C18", "C19", "C02", "C07"],
    "store.rs": ["C07", "C01"],
    "bfs_queues.rs": ["C19", "C05"],
    "labeled_queues.rs": ["C05"],
}

# (regex, replacement) — applied to the first match on a line
OPS = [
    (r"<=", "<"), (r">=", ">"), (r"(?<![<>=!-])<(?![<=])", "<="), (r"(?<![<>=!-])>(?![>=])", ">="),
    (r"==", "!="), (r"!=", "=="), (r"&&", "||"), (r"\|\|", "&&"),
    (r"\+ 1\b", "+ 2"), (r"\+ 1\b", ""), (r"- 1\b", ""), (r"- 1\b", "+ 1"), (r"\+ 1\b", "- 1"),
    (r"\.all\(", ".any("), (r"\.any\(", ".all("), (r"\bmin\(", "max("), (r"\bmax\(", "min("),
    (r"\btrue\b", "false"), (r"\bfalse\b", "true"), (r"\b0\b", "1"), (r"\b1\b", "0"), (r"\b2\b", "3"),
    (r"!(?=[a-z_(])", ""), (r"\.start\b", ".end"), (r"\.end\b", ".start"),
    (r"\bi \+ 1\b", "i"), (r"\bj \+ 1\b", "j"), (r"\bSome\((\w+)\)", r"None"),
    (r"saturating_sub", "wrapping_sub"), (r"\.is_some\(\)", ".is_none()"), (r"\.is_none\(\)", ".is_some()"),
    (r"\.is_empty\(\)", ".is_empty() == false"), (r"\+=", "-="), (r"\b(\w+) - (\w+)\b", r"\1 + \2"),
    (r"\b(\w+) \+ (\w+)\b", r"\1 - \2"), (r"\* ", "+ "), (r"<< ", ">> "), (r"\| ", "& "),
]


def candidates(files):
    out = []
    for f in files:
        path = os.path.join(SRC, f)
        lines = open(path).read().split("\n")
        in_block_comment = False
        for n, line in enumerate(lines):
            s = line.strip()
            if s.startswith("#[cfg(test)]"):
                break
            if not s or s.startswith("//") or s.startswith("#[") or s.startswith("use ") or s.startswith("///"):
                continue
            if "debug_assert" in s or "println!" in s or "write!" in s or "panic!(" in s or "format!(" in s:
                continue
            code = line.split("//")[0]
            for k, (pat, rep) in enumerate(OPS):
                m = re.search(pat, code)
                if m:
                    new = code[:m.start()] + re.sub(pat, rep, code[m.start():], count=1) + line[len(code):]
                    if new != line:
                        out.append((f, n, line, new, k))
    return out


def sh(cmd, cwd=None, env=None, timeout=1800):
    # own process group, killed as a whole on timeout (a mutant that hangs leaves no orphan chunk behind)
    import signal
    p = subprocess.Popen(cmd, cwd=cwd, env=env, stdout=subprocess.PIPE, stderr=subprocess.STDOUT, text=True, start_new_session=True)
    try:
        out, _ = p.communicate(timeout=timeout)
        return p.returncode, out
    except subprocess.TimeoutExpired:
        try:
            os.killpg(p.pid, signal.SIGKILL)
        except ProcessLookupError:
            pass
        p.communicate()
        return 124, "timeout"


def setup_worker(k):
    base = "/tmp/mw/w%d" % k
    shutil.rmtree(base, ignore_errors=True)
    os.makedirs(base)
    sh(["git", "-C", "/repo", "worktree", "prune"])
    rc, out = sh(["git", "-C", "/repo", "worktree", "add", "--detach", base + "/repo", "HEAD"])
    if rc != 0:
        raise RuntimeError(out)
    sh(["rsync", "-a", "--exclude", "harness/target", "--exclude", "harness/fuzz/target", "--exclude", ".work", "--exclude", "replays", "--exclude", "seeded", "--exclude", ".git", "--exclude", "sweep",
        "/verif/", base + "/verif/"])
    ct = base + "/verif/harness/Cargo.toml"
    s = open(ct).read().replace('path = "/repo"', 'path = "%s/repo"' % base)
    open(ct, "w").write(s)
    return base


def run_worker(k, queue, lock, outpath, jobs):
    base = setup_worker(k)
    env = dict(os.environ, CARGO_NET_OFFLINE="true", VERIF_JOBS=str(jobs), VERIF_SEED="0")
    # warm build
    sh(["./check", "--build"], cwd=base + "/verif", env=env)
    while True:
        with lock:
            if not queue:
                break
            (f, n, before, after, opk) = queue.pop()
        path = os.path.join(base, "repo", "src", f)
        lines = open(path).read().split("\n")
        if lines[n] != before:
            continue
        lines[n] = after
        open(path, "w").write("\n".join(lines))
        rec = dict(file=f, line=n + 1, before=before.strip(), after=after.strip(), op=opk, checks={}, killed_by=[])
        t0 = time.time()
        rc, out = sh(["cargo", "test", "--offline", "--lib", "--quiet"], cwd=base + "/repo", env=env, timeout=900)
        if "error" in out and ("could not compile" in out or "error[" in out):
            rec["crate_tests"] = "nocompile"
        elif rc != 0:
            rec["crate_tests"] = "fail"
        else:
            rec["crate_tests"] = "pass"
            for pid in MAP.get(f, []):
                rc2, out2 = sh(["./check", pid, "quick"], cwd=base + "/verif", env=env, timeout=3000)
                rec["checks"][pid] = rc2
                if rc2 == 1:
                    cls = re.findall(r"failure class: (\S+)", out2)
                    rec["killed_by"].append(pid)
                    rec.setdefault("classes", []).extend(cls[:2])
                    break  # one detection is enough for the sweep
        rec["wall_s"] = round(time.time() - t0, 1)
        sh(["git", "checkout", "--", "."], cwd=base + "/repo")
        with lock:
            with open(outpath, "a") as fh:
                fh.write(json.dumps(rec) + "\n")
    sh(["git", "-C", "/repo", "worktree", "remove", "--force", base + "/repo"])
    shutil.rmtree(base, ignore_errors=True)


def main():
    ap = argparse.ArgumentParser()
    ap.add_argument("--workers", type=int, default=4)
    ap.add_argument("--count", type=int, default=200)
    ap.add_argument("--seed", type=int, default=1)
    ap.add_argument("--out", default="/verif/sweep/sweep.jsonl")
    ap.add_argument("--files", default=",".join(MAP.keys()))
    ap.add_argument("--skip", default="", help="comma-separated JSONL files of earlier sweeps: their mutants are not repeated")
    a = ap.parse_args()
    files = [f for f in a.files.split(",") if f]
    cands = candidates(files)
    done = set()
    for f in [x for x in a.skip.split(",") if x]:
        for line in open(f):
            r = json.loads(line)
            done.add((r["file"], r["line"], r["after"]))
    cands = [c for c in cands if (c[0], c[1] + 1, c[3].strip()) not in done]
    rng = random.Random(a.seed)
    rng.shuffle(cands)
    # at most 2 mutants per source line
    seen = {}
    picked = []
    for c in cands:
        key = (c[0], c[1])
        if seen.get(key, 0) >= 2:
            continue
        seen[key] = seen.get(key, 0) + 1
        picked.append(c)
        if len(picked) >= a.count:
            break
    os.makedirs(os.path.dirname(a.out), exist_ok=True)
    print("%d candidate mutants, running %d with %d workers -> %s" % (len(cands), len(picked), a.workers, a.out), flush=True)
    lock = threading.Lock()
    jobs = max(2, 16 // a.workers)
    threads = [threading.Thread(target=run_worker, args=(k, picked, lock, a.out, jobs)) for k in range(a.workers)]
    for t in threads:
        t.start()
    for t in threads:
        t.join()
    print("done")


if __name__ == "__main__":
    main()
