#!/bin/sh
# usage: tools/check_equivalent.sh [name-substring]
# Applies each behaviour-preserving refactoring under /verif/equivalent/ to /repo, confirms the crate's own
# tests still pass, runs EVERY quick check and expects exit 0 everywhere (a VIOLATION here would be a false
# alarm of the machinery), and restores /repo.
cd /verif
if ! git -C /repo diff --quiet; then echo "/repo working tree is dirty, refusing"; exit 3; fi
BAD=0
for e in /verif/equivalent/*$1*.diff; do
  echo "=== $(basename $e)"
  git -C /repo apply "$e" || { echo "does not apply"; continue; }
  ( cd /repo && cargo test --offline --lib 2>&1 | grep "test result" )
  OUT=$(./check all quick 2>&1)
  echo "$OUT" | grep -E "VIOLATION|failure class|INCONCLUSIVE| exit [12]" | head -12
  if echo "$OUT" | grep -qE " exit [12]"; then BAD=1; else echo "all 20 checks exit 0"; fi
  git -C /repo checkout -- .
done
exit $BAD
