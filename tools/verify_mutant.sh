#!/bin/sh
# usage: tools/verify_mutant.sh <worktree> <A|B>
# Independently confirms a seeded change inside its scratch worktree: demo passes on the unchanged
# code, the change applies, unit tests + doc tests still pass, demo fails with the change.
WT=$1; X=$2
cd "$WT" || exit 3
git checkout -q -- src; rm -rf tests; mkdir tests
cp "mutant${X}_demo.rs" "tests/mutant${X}_demo.rs" || exit 3
BASE=$(cargo test --offline --test "mutant${X}_demo" 2>&1 | grep -E "^test result:" | head -1)
git apply "mutant${X}.diff" || { echo "APPLY FAILED"; rm -rf tests; exit 3; }
LIB=$(cargo test --offline --lib 2>&1 | grep -E "^test result:" | head -1)
DOC=$(cargo test --offline --doc 2>&1 | grep -E "^test result:" | head -1)
MUT=$(cargo test --offline --test "mutant${X}_demo" 2>&1 | grep -E "^test result:|error\[|could not compile|has overflowed its stack|SIGSEGV|SIGABRT" | head -1)
case "$MUT" in *overflowed*|*SIGSEGV*|*SIGABRT*) MUT="test result: FAILED. (the test process died: $MUT)";; esac
git checkout -q -- src; rm -rf tests
echo "demo on unchanged code : $BASE"
echo "lib tests with change  : $LIB"
echo "doc tests with change  : $DOC"
echo "demo with change       : $MUT"
