"""Per-property plan: what each tier runs (fixed work, never a time quota), the non-triviality
rule, the oracle and the assumptions that go into the evidence file."""

COMMON_ASSUMPTIONS = [
    "the harness's reference models (harness/src: rdfa, prog, ivl, ...) are correct; they are cross-checked against each other by `vcheck selftest`",
    "absence of a violation is only 'not found within the cases explored'; nothing is proved",
]

PLAN = {}

PLAN["C20"] = dict(
    rule="enumeration: every ordered pair of the intervals over a small universe [0,n) u middle-block u (MAX-n,MAX] (all lists of length <= 3 too); "
         "generation: proptest byte tapes decoded into lists of 1-6 arbitrary intervals (end points from edge values, neighbours of earlier end points, random). "
         "Non-trivial = an ordered pair of different intervals that are adjacent, nested, or touch 0 / 0x2FFFF; distinct = digest of the decoded list (generated) / distinct by construction (enumerated).",
    oracle="R6: the alphabet is cut into segments at all end points of the case; each interval is a bit mask over segments; contains/covers/before/after/size/singleton/alphabet/inter/inter_list/union/pick/partial_cmp/== are compared with brute-force set operations on the masks (true cardinalities from segment widths)",
    assumptions=COMMON_ASSUMPTIONS + ["a CharSet returned by the crate is observed through contains() at both ends and the middle of every segment, plus size()"],
    quick=dict(enum={"rel": 4, "dbg": 2}, proptest={"rel": (8, 20000), "dbg": (4, 10000)}),
    thorough=dict(enum={"rel": 16, "dbg": 4}, proptest={"rel": (16, 300000), "dbg": (8, 100000)}),
)

PLAN["C11"] = dict(
    rule="enumeration: every partition (set of disjoint intervals, adjacent ones included) over the small universe x every query interval x every probe character, each partition also rebuilt by try_from_iter on reversed/rotated lists, all ordered pairs of intervals for try_from_iter; "
         "generation: tapes decoded into 0-8 sorted disjoint intervals (adjacency, 0 and 0x2FFFF over-weighted), 1-6 query sets placed on/next to interval boundaries, and a shuffled list with 0-2 extra possibly-overlapping sets. "
         "Non-trivial = partition with >= 2 intervals and a query set with an end point in a gap; distinct = digest of (partition, queries, list) / by construction.",
    oracle="R6 linear scans written from the definitions: class_of_char, interval_cover/class_of_set/good_char_set (CoveredBy(i) iff inside interval i, DisjointFromAll iff meets none, else Overlaps/AmbiguousCharSet), empty_complement, pick_complement, num_classes, valid_class_id, class_ids, picks, pick, get/start/end/interval/ranges; try_from_iter Ok iff pairwise disjoint and same intervals as push",
    assumptions=COMMON_ASSUMPTIONS + ["partitions are compared by their intervals and emptiness of the complement; the complement witness only has to be a member of the complement (or MAX+1)"],
    quick=dict(enum={"rel": 8, "dbg": 4}, proptest={"rel": (8, 15000), "dbg": (4, 8000)}),
    thorough=dict(enum={"rel": 16, "dbg": 8}, proptest={"rel": (16, 200000), "dbg": (8, 60000)}),
)

PLAN["C12"] = dict(
    rule="enumeration: all ordered pairs of partitions over the universe n=3 (n=4 thorough) and all ordered triples over n=2; generation: tapes decoded into a partition, a second one derived from the first one's boundaries (nested / interleaved / adjacent / identical pieces) or independent, plus 0-2 more for merge_partition_list. "
         "Non-trivial = some interval of p1 and some interval of p2 overlap without being equal, or are adjacent; distinct = digest of the partition list / by construction.",
    oracle="label(x) = tuple of the classes of x in the inputs (linear scan); result intervals sorted and disjoint; labels constant inside every result interval and never all-complement; every character outside the result has the all-complement label; two adjacent result intervals never share a label (maximality, interval reading of 'coarsest', DESIGN.md section 4/C12); witness in the complement or MAX+1; merge with the empty partition / itself / in the other order and merge_partition_list under reversal and rotation give the same intervals",
    assumptions=COMMON_ASSUMPTIONS + ["'coarsest common refinement' is read as maximality among interval partitions, which is what the crate documents and what the statement's 'sorted, disjoint, maximal' says"],
    quick=dict(enum={"rel": 8, "dbg": 2}, proptest={"rel": (8, 15000), "dbg": (4, 8000)}),
    thorough=dict(enum={"rel": 16, "dbg": 4}, proptest={"rel": (16, 200000), "dbg": (8, 60000)}),
)

PLAN["C15"] = dict(
    rule="enumeration: all ranges with bounds in 0..=24 (0..=40 thorough), finite and infinite, all ordered pairs, scale factors 0..=8; generation: tapes decoded into two ranges (small, medium, huge and near-u32::MAX bounds; finite, infinite, narrow) and three scale factors. "
         "Non-trivial = neither range is a point and the first is finite, so right_mul_is_exact is decided by the gap inequality rather than a special case; distinct = digest of (r, s, factors) / by construction.",
    oracle="ranges read as sets of naturals over u128: contains/includes = membership/inclusion; add = set of sums; scale(k) = k-fold sum; shift = predecessors with 0 kept; mul must contain every product (all products in the small scope, corner products otherwise); right_mul_is_exact(r,s) <=> the union over y in s of [y*lo, y*hi], computed as an explicit union of intervals, equals the observed r.mul(s); a panic is accepted only when its message says arithmetic overflow and a natural intermediate exceeds u32",
    assumptions=COMMON_ASSUMPTIONS + ["a finite LoopRange's end is observed through contains() (galloping search), its start through start()", "when more than 4096 blocks would be needed the union is shown not to be an interval by its first gap (never happens in the enumerated scope)"],
    quick=dict(enum={"rel": 8, "dbg": 4}, proptest={"rel": (8, 30000), "dbg": (4, 10000)}),
    thorough=dict(enum={"rel": 16, "dbg": 8}, proptest={"rel": (16, 400000), "dbg": (8, 100000)}),
)

PLAN["C06"] = dict(
    rule="enumeration: all triples (subject, pattern, replacement) of strings over {a,b} (subject length <= 4, others <= 3; thorough 6/4) and over {a,b,c} (3/2), each with every index in [-2,|s|+2] u {i32::MIN, MIN+1, MAX-1, MAX} and 8 length values; "
         "generation: tapes decoded into a subject of length 0-12 over {a,b,c,0,0x2FFFF}, a pattern that is a substring / a repetition aa.. / independent, a replacement that may contain the pattern, 3 index and 2 length integers biased to -2..2, |s|-2..|s|+2 and i32 extremes. "
         "Non-trivial = non-empty pattern occurring in the subject, or an index within 1 of 0 or of |s|; distinct = digest of the decoded tuple / by construction.",
    oracle="R7: SMT-LIB 2.6 definitions written on Vec<u32> with i64 arithmetic (indexof = least n >= i with an occurrence at n for 0 <= i <= |s|; replace = leftmost occurrence, empty pattern at 0; replace_all = left-to-right non-overlapping, identity for the empty pattern); exact equality for all ten functions",
    assumptions=COMMON_ASSUMPTIONS,
    quick=dict(enum={"rel": 8, "dbg": 4}, proptest={"rel": (8, 40000), "dbg": (4, 15000)}),
    thorough=dict(enum={"rel": 16, "dbg": 8}, proptest={"rel": (16, 1500000), "dbg": (8, 300000)}),
)

PLAN["C08"] = dict(
    rule="enumeration: every text of length <= 7 (8 thorough) over the symbols \\ u { } 0 2 3 f A g; structured texts prefix.\\u[{]hex^k.terminator.suffix for k <= 7; every string of length <= 6 (7) over the code points \\ u { } 4 1 \" 0x7f 0x2ffff printed and read back; every single code point; "
         "generation: tapes decoded into token sequences (escape prefixes, hex and non-hex letters, quote, 0, 0x7f, 0x80, 0xffff, 0x10000, 0x2ffff) and into strings of arbitrary code points mixed with spelled-out escapes. "
         "Non-trivial = text contains \\u, or string contains a backslash or a non-printable character; distinct = digest of (text, string) / by construction.",
    oracle="R8: scanner written from the SMT-LIB 2.6 grammar (\\ud3d2d1d0 | \\u{d0}..\\u{d4..d0} with value <= 0x2FFFF; anything else copied); parse_smt_literal(t) == R8(t). Printing: enclosed in quotes, body in 0x20..0x7E, every quote doubled, un-doubled body reads back to the original both through parse_smt_literal and through R8",
    assumptions=COMMON_ASSUMPTIONS + ["texts are restricted to characters <= 0x2FFFF (larger ones belong to C17)"],
    quick=dict(enum={"rel": 14, "dbg": 2}, proptest={"rel": (8, 40000), "dbg": (4, 15000)}),
    thorough=dict(enum={"rel": 16, "dbg": 8}, proptest={"rel": (16, 1500000), "dbg": (8, 300000)}),
)

PLAN["C09"] = dict(
    rule="enumeration: every integer in [0,0x2FFFF+16] for from_code/to_code/from_int/to_int round trips; every decimal value within 2000 (20000 thorough) of 8 centres around 2^31, 2^32 and their multiples, with leading zeros and with a trailing non-digit; every string over 0-9,a of length <= 5 (6); "
         "generation: tapes decoded into three strings sharing a prefix (order laws), a digit string (random length <= 25, or clustered around 2^31/2^32/powers of ten, or long runs of 9, with leading zeros), a digit string with one non-digit inserted at a random position, and an i32. The same seeds run in the rel (no overflow checks) and dbg (overflow checks) builds. "
         "Non-trivial = digit string with value >= 2^31 (also before an inserted non-digit), or two different strings sharing a non-empty prefix; distinct = digest of the decoded tuple / by construction.",
    oracle="str_lt/str_le = Rust slice order on [u32] plus trichotomy, le = lt or eq, transitivity, prefix => le; str_to_int against a u128 evaluation: all-digit and <= i32::MAX => that value, all-digit and larger => must panic, otherwise -1 without panic; from_int/to_code/from_code/is_digit by definition; to_code(from_code(x)) = x and to_int(from_int(n)) = n",
    assumptions=COMMON_ASSUMPTIONS + ["'every build profile' = the two profiles a cargo user gets: release-like (opt-level 3, no overflow checks, no debug assertions) and dev/test-like (overflow checks and debug assertions on)"],
    same_seeds=True,
    quick=dict(enum={"rel": 8, "dbg": 8}, proptest={"rel": (8, 40000), "dbg": (8, 40000)}, same_seeds=True),
    thorough=dict(enum={"rel": 16, "dbg": 16}, proptest={"rel": (16, 1000000), "dbg": (16, 1000000)}, same_seeds=True),
)

PLAN["C17"] = dict(
    rule="generation: tapes decoded into a Rust string and a char over all scalar values (U+2FFFF, U+30000, U+10FFFF and neighbours over-weighted), a u32 list and a u32 (0x2FFFF, 0x30000, u32::MAX ...), a literal text mixing such characters with escapes, integers, and a small regex program; all public constructors, parse_smt_literal, str_* results on well-formed strings, regex replace through the wrappers and get_string are checked. "
         "Non-trivial = some input value is above 0x2FFFF; distinct = digest of all decoded inputs.",
    oracle="is_good() and every element <= 0x2FFFF for every string handed out; integer constructors element-wise x <= 0x2FFFF ? x : 0xFFFD; text constructors exact when all characters are in range (in-range characters kept in order otherwise); parse_smt_literal == R8 on in-range texts; every such string s: ReManager::str(s) does not panic and str_in_re(s, str(s))",
    assumptions=COMMON_ASSUMPTIONS + ["what an out-of-range character of a text becomes is not prescribed by the property beyond well-formedness"],
    quick=dict(proptest={"rel": (8, 6000), "dbg": (4, 3000)}),
    thorough=dict(proptest={"rel": (16, 150000), "dbg": (8, 50000)}),
)
