"""Per-property plan: what each tier runs (fixed work, never a time quota), the non-triviality
rule, the oracle and the assumptions that go into the evidence file."""

COMMON_ASSUMPTIONS = [
    "the harness's reference models (harness/src: rdfa, prog, ivl, ...) are correct; they are cross-checked against each other by `vcheck selftest`",
    "absence of a violation is only 'not found within the cases explored'; nothing is proved",
]

PLAN = {}

PLAN["C20"] = dict(
    rule="enumeration: every ordered pair of the intervals over a small universe [0,n) u middle-block u (MAX-n,MAX] (all lists of length <= 3 too); "
         "generation: proptest byte tapes decoded into lists of 1-6 arbitrary intervals (end points from edge values, neighbours of earlier end points, random). "
         "Non-trivial = an ordered pair of different intervals that are adjacent, nested, or touch 0 / 0x2FFFF; distinct = digest of the decoded list (generated) / distinct by construction (enumerated).",
    oracle="R6: the alphabet is cut into segments at all end points of the case; each interval is a bit mask over segments; contains/covers/before/after/size/singleton/alphabet/inter/inter_list/union/pick/partial_cmp/== are compared with brute-force set operations on the masks (true cardinalities from segment widths)",
    assumptions=COMMON_ASSUMPTIONS + ["a CharSet returned by the crate is observed through contains() at both ends and the middle of every segment, plus size()"],
    quick=dict(enum={"rel": 4, "dbg": 2}, proptest={"rel": (8, 20000), "dbg": (4, 10000)}),
    thorough=dict(enum={"rel": 16, "dbg": 4}, proptest={"rel": (16, 300000), "dbg": (8, 100000)}),
)
