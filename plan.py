"""Per-property plan: what each tier runs (fixed work, never a time quota), the non-triviality
rule, the oracle and the assumptions that go into the evidence file."""

COMMON_ASSUMPTIONS = [
    "the harness's reference models (harness/src: rdfa, prog, ivl, ...) are correct; they are cross-checked against each other by `vcheck selftest`",
    "absence of a violation is only 'not found within the cases explored'; nothing is proved",
]

PLAN = {}

PLAN["C20"] = dict(
    rule="enumeration: every ordered pair of the intervals over a small universe [0,n) u middle-block u (MAX-n,MAX] (all lists of length <= 3 too); "
         "generation: proptest byte tapes decoded into lists of 1-6 arbitrary intervals (end points from edge values, neighbours of earlier end points, random). "
         "Non-trivial = an ordered pair of different intervals that are adjacent, nested, or touch 0 / 0x2FFFF; distinct = digest of the decoded list (generated) / distinct by construction (enumerated).",
    oracle="R6: the alphabet is cut into segments at all end points of the case; each interval is a bit mask over segments; contains/covers/before/after/size/singleton/alphabet/inter/inter_list/union/pick/partial_cmp/== are compared with brute-force set operations on the masks (true cardinalities from segment widths)",
    assumptions=COMMON_ASSUMPTIONS + ["a CharSet returned by the crate is observed through contains() at both ends and the middle of every segment, plus size()"],
    quick=dict(enum={"rel": 4, "dbg": 2}, proptest={"rel": (8, 20000), "dbg": (4, 10000)}),
    thorough=dict(enum={"rel": 16, "dbg": 4}, proptest={"rel": (16, 300000), "dbg": (8, 100000)}),
)

PLAN["C11"] = dict(
    rule="enumeration: every partition (set of disjoint intervals, adjacent ones included) over the small universe x every query interval x every probe character, each partition also rebuilt by try_from_iter on reversed/rotated lists, all ordered pairs of intervals for try_from_iter; "
         "generation: tapes decoded into 0-8 sorted disjoint intervals (adjacency, 0 and 0x2FFFF over-weighted), 1-6 query sets placed on/next to interval boundaries, and a shuffled list with 0-2 extra possibly-overlapping sets. "
         "Non-trivial = partition with >= 2 intervals and a query set with an end point in a gap; distinct = digest of (partition, queries, list) / by construction.",
    oracle="R6 linear scans written from the definitions: class_of_char, interval_cover/class_of_set/good_char_set (CoveredBy(i) iff inside interval i, DisjointFromAll iff meets none, else Overlaps/AmbiguousCharSet), empty_complement, pick_complement, num_classes, valid_class_id, class_ids, picks, pick, get/start/end/interval/ranges; try_from_iter Ok iff pairwise disjoint and same intervals as push",
    assumptions=COMMON_ASSUMPTIONS + ["partitions are compared by their intervals and emptiness of the complement; the complement witness only has to be a member of the complement (or MAX+1)"],
    quick=dict(enum={"rel": 8, "dbg": 4}, proptest={"rel": (8, 15000), "dbg": (4, 8000)}),
    thorough=dict(enum={"rel": 16, "dbg": 8}, proptest={"rel": (16, 200000), "dbg": (8, 60000)}),
)

PLAN["C12"] = dict(
    rule="enumeration: all ordered pairs of partitions over the universe n=3 (n=4 thorough) and all ordered triples over n=2; generation: tapes decoded into a partition, a second one derived from the first one's boundaries (nested / interleaved / adjacent / identical pieces) or independent, plus 0-2 more for merge_partition_list. "
         "Non-trivial = some interval of p1 and some interval of p2 overlap without being equal, or are adjacent; distinct = digest of the partition list / by construction.",
    oracle="label(x) = tuple of the classes of x in the inputs (linear scan); result intervals sorted and disjoint; labels constant inside every result interval and never all-complement; every character outside the result has the all-complement label; two adjacent result intervals never share a label (maximality, interval reading of 'coarsest', DESIGN.md section 4/C12); witness in the complement or MAX+1; merge with the empty partition / itself / in the other order and merge_partition_list under reversal and rotation give the same intervals",
    assumptions=COMMON_ASSUMPTIONS + ["'coarsest common refinement' is read as maximality among interval partitions, which is what the crate documents and what the statement's 'sorted, disjoint, maximal' says"],
    quick=dict(enum={"rel": 8, "dbg": 2}, proptest={"rel": (8, 15000), "dbg": (4, 8000)}),
    thorough=dict(enum={"rel": 16, "dbg": 4}, proptest={"rel": (16, 200000), "dbg": (8, 60000)}),
)

PLAN["C15"] = dict(
    rule="enumeration: all ranges with bounds in 0..=24 (0..=40 thorough), finite and infinite, all ordered pairs, scale factors 0..=8; generation: tapes decoded into two ranges (small, medium, huge and near-u32::MAX bounds; finite, infinite, narrow) and three scale factors. "
         "Non-trivial = neither range is a point and the first is finite, so right_mul_is_exact is decided by the gap inequality rather than a special case; distinct = digest of (r, s, factors) / by construction.",
    oracle="ranges read as sets of naturals over u128: contains/includes = membership/inclusion; add = set of sums; scale(k) = k-fold sum; shift = predecessors with 0 kept; mul must contain every product (all products in the small scope, corner products otherwise); right_mul_is_exact(r,s) <=> the union over y in s of [y*lo, y*hi], computed as an explicit union of intervals, equals the observed r.mul(s); a panic is accepted only when its message says arithmetic overflow and a natural intermediate exceeds u32",
    assumptions=COMMON_ASSUMPTIONS + ["a finite LoopRange's end is observed through contains() (galloping search), its start through start()", "when more than 4096 blocks would be needed the union is shown not to be an interval by its first gap (never happens in the enumerated scope)"],
    quick=dict(enum={"rel": 8, "dbg": 4}, proptest={"rel": (8, 30000), "dbg": (4, 10000)}),
    thorough=dict(enum={"rel": 16, "dbg": 8}, proptest={"rel": (16, 400000), "dbg": (8, 100000)}),
)
