"""Per-property plan: what each tier runs (fixed work, never a time quota), the non-triviality
rule, the oracle and the assumptions that go into the evidence file."""

COMMON_ASSUMPTIONS = [
    "the harness's reference models (harness/src: rdfa, prog, ivl, ...) are correct; they are cross-checked against each other by `vcheck selftest`",
    "absence of a violation is only 'not found within the cases explored'; nothing is proved",
]

PLAN = {}

PLAN["C20"] = dict(
    rule="enumeration: every ordered pair of the intervals over a small universe [0,n) u middle-block u (MAX-n,MAX] (all lists of length <= 3 too); "
         "generation: proptest byte tapes decoded into lists of 1-6 arbitrary intervals (end points from edge values, neighbours of earlier end points, random). "
         "Non-trivial = an ordered pair of different intervals that are adjacent, nested, or touch 0 / 0x2FFFF; distinct = digest of the decoded list (generated) / distinct by construction (enumerated).",
    oracle="R6: the alphabet is cut into segments at all end points of the case; each interval is a bit mask over segments; contains/covers/before/after/size/singleton/alphabet/inter/inter_list/union/pick/partial_cmp/== are compared with brute-force set operations on the masks (true cardinalities from segment widths)",
    assumptions=COMMON_ASSUMPTIONS + ["a CharSet returned by the crate is observed through contains() at both ends and the middle of every segment, plus size()"],
    quick=dict(enum={"rel": 4, "dbg": 2, "o0": 1}, proptest={"rel": (8, 20000), "dbg": (4, 10000)}),
    thorough=dict(enum={"rel": 16, "dbg": 4, "o0": 1}, proptest={"rel": (16, 300000), "dbg": (8, 100000)}),
)

PLAN["C11"] = dict(
    rule="enumeration: every partition (set of disjoint intervals, adjacent ones included) over the small universe x every query interval x every probe character, each partition also rebuilt by try_from_iter on reversed/rotated lists, all ordered pairs of intervals for try_from_iter; "
         "generation: tapes decoded into 0-8 sorted disjoint intervals (adjacency, 0 and 0x2FFFF over-weighted), 1-6 query sets placed on/next to interval boundaries, and a shuffled list with 0-2 extra possibly-overlapping sets. "
         "Non-trivial = partition with >= 2 intervals and a query set with an end point in a gap; distinct = digest of (partition, queries, list) / by construction.",
    oracle="R6 linear scans written from the definitions: class_of_char, interval_cover/class_of_set/good_char_set (CoveredBy(i) iff inside interval i, DisjointFromAll iff meets none, else Overlaps/AmbiguousCharSet), empty_complement, pick_complement, num_classes, valid_class_id, class_ids, picks, pick, get/start/end/interval/ranges; try_from_iter Ok iff pairwise disjoint and same intervals as push",
    assumptions=COMMON_ASSUMPTIONS + ["partitions are compared by their intervals and emptiness of the complement; the complement witness only has to be a member of the complement (or MAX+1)"],
    quick=dict(enum={"rel": 8, "dbg": 4, "o0": 1}, proptest={"rel": (8, 15000), "dbg": (4, 8000)}),
    thorough=dict(enum={"rel": 16, "dbg": 8, "o0": 1}, proptest={"rel": (16, 200000), "dbg": (8, 60000)}),
)

PLAN["C12"] = dict(
    rule="enumeration: all ordered pairs of partitions over the universe n=3 (n=4 thorough) and all ordered triples over n=2; generation: tapes decoded into a partition, a second one derived from the first one's boundaries (nested / interleaved / adjacent / identical pieces) or independent, plus 0-2 more for merge_partition_list. "
         "Non-trivial = some interval of p1 and some interval of p2 overlap without being equal, or are adjacent; distinct = digest of the partition list / by construction.",
    oracle="label(x) = tuple of the classes of x in the inputs (linear scan); result intervals sorted and disjoint; labels constant inside every result interval and never all-complement; every character outside the result has the all-complement label; two adjacent result intervals never share a label (maximality, interval reading of 'coarsest', DESIGN.md section 4/C12); witness in the complement or MAX+1; merge with the empty partition / itself / in the other order and merge_partition_list under reversal and rotation give the same intervals",
    assumptions=COMMON_ASSUMPTIONS + ["'coarsest common refinement' is read as maximality among interval partitions, which is what the crate documents and what the statement's 'sorted, disjoint, maximal' says"],
    quick=dict(enum={"rel": 8, "dbg": 2, "o0": 2}, proptest={"rel": (8, 15000), "dbg": (4, 8000)}),
    thorough=dict(enum={"rel": 16, "dbg": 4, "o0": 2}, proptest={"rel": (16, 200000), "dbg": (8, 60000)}),
)

PLAN["C15"] = dict(
    rule="enumeration: all ranges with bounds in 0..=24 (0..=40 thorough), finite and infinite, all ordered pairs, scale factors 0..=8; a critical-gap family r = [a,a+q], s = [c,c+1] / [c,c+2] with a = c*q+1+delta, delta in -2..=2, at every magnitude 2^4..2^31; generation: tapes decoded into two ranges (small, medium, huge and near-u32::MAX bounds; finite, infinite, narrow) and three scale factors. "
         "Non-trivial = neither range is a point and the first is finite, so right_mul_is_exact is decided by the gap inequality rather than a special case; distinct = digest of (r, s, factors) / by construction.",
    oracle="ranges read as sets of naturals over u128: contains/includes = membership/inclusion; add = set of sums; scale(k) = k-fold sum; shift = predecessors with 0 kept; mul must contain every product (all products in the small scope, corner products otherwise); right_mul_is_exact(r,s) <=> the union over y in s of [y*lo, y*hi], computed as an explicit union of intervals, equals the observed r.mul(s); a panic is accepted only when its message says arithmetic overflow and a natural intermediate exceeds u32",
    assumptions=COMMON_ASSUMPTIONS + ["a finite LoopRange's end is observed through contains() (galloping search), its start through start()", "when more than 4096 blocks would be needed the union is shown not to be an interval by its first gap (never happens in the enumerated scope)"],
    quick=dict(enum={"rel": 8, "dbg": 4}, proptest={"rel": (8, 30000), "dbg": (4, 10000)}),
    thorough=dict(enum={"rel": 16, "dbg": 8}, proptest={"rel": (16, 400000), "dbg": (8, 100000)}),
)

PLAN["C06"] = dict(
    rule="enumeration: all triples (subject, pattern, replacement) of strings over {a,b} (subject length <= 4, others <= 3; thorough 6/4) and over {a,b,c} (3/2), each with every index in [-2,|s|+2] u {i32::MIN, MIN+1, MAX-1, MAX} and 8 length values; "
         "a near-unary family with closed-form answers, a size-budget family (|s| up to 10^6, short pattern planted 0-2 times, replacement of 3000-131072 characters: |s|/|p|*|r| exceeds 2^31-1 while the result does not) and an aggregate-collision family (windows and patterns of equal length that share their ends, their multiset of characters, the xor of their characters, or whose position-wise differences sum to 2^8 / 2^16 / 2^32, up to 65538 characters); generation: tapes decoded into a subject of length 0-12 over {a,b,c,0,0x2FFFF}, a pattern that is a substring / a repetition aa.. / independent, a replacement that may contain the pattern, 3 index and 2 length integers biased to -2..2, |s|-2..|s|+2 and i32 extremes. "
         "Non-trivial = non-empty pattern occurring in the subject, or an index within 1 of 0 or of |s|; distinct = digest of the decoded tuple / by construction.",
    oracle="R7: SMT-LIB 2.6 definitions written on Vec<u32> with i64 arithmetic (indexof = least n >= i with an occurrence at n for 0 <= i <= |s|; replace = leftmost occurrence, empty pattern at 0; replace_all = left-to-right non-overlapping, identity for the empty pattern); exact equality for all ten functions",
    assumptions=COMMON_ASSUMPTIONS,
    quick=dict(enum={"rel": 8, "dbg": 4, "o0": 2}, proptest={"rel": (8, 40000), "dbg": (4, 15000)}),
    thorough=dict(enum={"rel": 16, "dbg": 8, "o0": 2}, proptest={"rel": (16, 1500000), "dbg": (8, 300000)}),
)

PLAN["C08"] = dict(
    rule="enumeration: every text of length <= 7 (8 thorough) over the symbols \\ u { } 0 2 3 f A g; structured texts prefix.\\u[{]hex^k.terminator.suffix for k <= 7; every string of length <= 6 (7) over the code points \\ u { } 4 1 \" 0x7f 0x2ffff printed and read back; every single code point; "
         "generation: tapes decoded into token sequences (escape prefixes, hex and non-hex letters, quote, 0, 0x7f, 0x80, 0xffff, 0x10000, 0x2ffff) and into strings of arbitrary code points mixed with spelled-out escapes. "
         "Non-trivial = text contains \\u, or string contains a backslash or a non-printable character; distinct = digest of (text, string) / by construction.",
    oracle="R8: scanner written from the SMT-LIB 2.6 grammar (\\ud3d2d1d0 | \\u{d0}..\\u{d4..d0} with value <= 0x2FFFF; anything else copied); parse_smt_literal(t) == R8(t). Printing: enclosed in quotes, body in 0x20..0x7E, every quote doubled, un-doubled body reads back to the original both through parse_smt_literal and through R8",
    assumptions=COMMON_ASSUMPTIONS + ["texts are restricted to characters <= 0x2FFFF (larger ones belong to C17)"],
    quick=dict(enum={"rel": 14, "dbg": 2}, proptest={"rel": (8, 40000), "dbg": (4, 15000)}),
    thorough=dict(enum={"rel": 16, "dbg": 8}, proptest={"rel": (16, 1500000), "dbg": (8, 300000)}),
)

PLAN["C09"] = dict(
    rule="enumeration: every integer in [0,0x2FFFF+16] for from_code/to_code/from_int/to_int round trips; every decimal value within 2000 (20000 thorough) of 8 centres around 2^31, 2^32 and their multiples, with leading zeros and with a trailing non-digit; every string over 0-9,a of length <= 5 (6); "
         "generation: tapes decoded into three strings sharing a prefix (order laws), a digit string (random length <= 25, or clustered around 2^31/2^32/powers of ten, or long runs of 9, with leading zeros), a digit string with one non-digit inserted at a random position, and an i32. The same seeds run in the rel (no overflow checks) and dbg (overflow checks) builds. "
         "Non-trivial = digit string with value >= 2^31 (also before an inserted non-digit), or two different strings sharing a non-empty prefix; distinct = digest of the decoded tuple / by construction.",
    oracle="str_lt/str_le = Rust slice order on [u32] plus trichotomy, le = lt or eq, transitivity, prefix => le; str_to_int against a u128 evaluation: all-digit and <= i32::MAX => that value, all-digit and larger => must panic, otherwise -1 without panic; from_int/to_code/from_code/is_digit by definition; to_code(from_code(x)) = x and to_int(from_int(n)) = n",
    assumptions=COMMON_ASSUMPTIONS + ["'every build profile' = release-like (opt-level 3, no overflow checks, no debug assertions) and dev/test-like (overflow checks and debug assertions on; opt-level 1 for the generated cases, opt-level 0 of the library for the enumerated ones)"],
    same_seeds=True,
    quick=dict(enum={"rel": 8, "dbg": 8, "o0": 2}, proptest={"rel": (8, 40000), "dbg": (8, 40000)}, same_seeds=True),
    thorough=dict(enum={"rel": 16, "dbg": 16, "o0": 2}, proptest={"rel": (16, 1000000), "dbg": (16, 1000000)}, same_seeds=True),
)

PLAN["C17"] = dict(
    rule="generation: tapes decoded into a Rust string and a char over all scalar values (U+2FFFF, U+30000, U+10FFFF and neighbours over-weighted), a u32 list and a u32 (0x2FFFF, 0x30000, u32::MAX ...), a literal text mixing such characters with escapes, integers, and a small regex program; all public constructors, parse_smt_literal, str_* results on well-formed strings, regex replace through the wrappers and get_string are checked. "
         "Non-trivial = some input value is above 0x2FFFF; distinct = digest of all decoded inputs.",
    oracle="is_good() and every element <= 0x2FFFF for every string handed out; integer constructors element-wise x <= 0x2FFFF ? x : 0xFFFD; text constructors exact when all characters are in range (in-range characters kept in order otherwise); parse_smt_literal == R8 on in-range texts; every such string s: ReManager::str(s) does not panic and str_in_re(s, str(s))",
    assumptions=COMMON_ASSUMPTIONS + ["what an out-of-range character of a text becomes is not prescribed by the property beyond well-formedness"],
    quick=dict(proptest={"rel": (12, 8000), "dbg": (4, 2500)}),
    thorough=dict(proptest={"rel": (48, 40000), "dbg": (16, 20000)}),
)

RX_GEN = ("generation: proptest byte tapes decoded into straight-line regex programs (R1) of 1-%d instructions over all public constructors "
          "(empty full epsilon sigma_plus all_chars char range char_set str smt_range concat concat_list union union_list inter inter_list complement diff diff_list star plus opt exp smt_loop mk_loop), "
          "operands drawn from earlier slots (sharing is frequent), ranges and characters from 1-6 boundary-rich landmarks (R2), loop bounds mostly 0-4")
RX_ASSUME = COMMON_ASSUMPTIONS + [
    "the exact engines explore all strings over the probed characters: first/last/interior character of every atom plus both ends (+-1) of every derivative class / automaton range of the crate; characters strictly inside a class are assumed to behave like its ends (class_of_char is checked separately in C11)",
    "programs whose reference DFA exceeds 3000 states, whose loop-range arithmetic overflows u32 (documented panic) or whose derivative closure exceeds 400 terms are discarded and counted",
]

PLAN["C01"] = dict(
    rule=RX_GEN % 12 + ", a side stream (12%) with loop bounds up to 150; the program is built on a fresh ReManager and again through the re_* wrappers in a fresh thread; 6 strings per case, half of them random walks of the reference DFA completed to a member. "
         "Non-trivial = >= 3 instructions, at least one loop/complement/inter/diff, and both a member and a non-member of the final slot among the sampled strings; distinct = digest of (landmarks, program).",
    oracle="(a) exact: derivative-graph bisimulation (R5) of EVERY slot against its reference DFA (R4, built bottom-up with textbook product/subset constructions from the SMT-LIB meaning of the program): str_in_re agrees with the denotation on all strings over the probed characters, and nullable == (epsilon in L) at every reached term; (b) sampled: str_in_re == DP matcher (R3, no automata) for every slot, covering the large-bound stream; (c) the same through smt_regular_expressions::str_in_re",
    assumptions=RX_ASSUME,
    quick=dict(proptest={"rel": (12, 8000), "dbg": (4, 2000)}),
    thorough=dict(proptest={"rel": (16, 60000), "dbg": (8, 15000)}),
)

PLAN["C02"] = dict(
    rule=RX_GEN % 10 + "; the final slot and one other slot are compiled with compile and try_compile(n+3). Non-trivial = automaton of the final slot has >= 3 states and its language is neither empty nor everything; distinct = digest of (landmarks, program).",
    oracle="structure: every state's ranges sorted, disjoint, inside [0,0x2FFFF]; a default successor whenever a character is uncovered; next() returns without panic on every break-point character of every state (0 and 0x2FFFF included); language: product of the reference DFA with the crate automaton through next() from the initial state (exact equality, not sampled strings); accepts/str_next on sampled strings against the DP matcher",
    assumptions=RX_ASSUME,
    quick=dict(proptest={"rel": (12, 40000), "dbg": (4, 8000)}),
    thorough=dict(proptest={"rel": (16, 250000), "dbg": (8, 60000)}),
)

PLAN["C03"] = dict(
    rule=RX_GEN % 10 + "; the term examined is the final slot or a derivative of it (0-2 hops); every class id, every probed character (both ends of every class, characters just outside, atom representatives), 1-5 query sets [a,b] placed on/next to the class boundaries, invalid ids Interval(n), Interval(n+k), Complement when nothing is uncovered. "
         "Non-trivial = the term has >= 2 classes and a query set straddles classes; distinct = digest of (landmarks, program).",
    oracle="for every probed character c: char_derivative(e,c) and class_derivative(e, class of c) are bisimilar (R5) to the reference state after c, i.e. denote exactly c^-1 L(e) for all continuation strings, so every character of a class gives the class derivative; str_derivative(e,s) denotes exactly s^-1 L(e) (bisimulation from the reference state after s; whether it is the same term as the fold of char_derivative is only recorded); class ids cover the alphabet (Complement listed iff something is uncovered, computed from char_ranges); invalid ids => Err(BadClassId); set_derivative(e,[a,b]) => Ok(common derivative, checked against the quotient at both ends) when the set lies in one class by linear scan, Err(_) when it meets more than one",
    assumptions=RX_ASSUME + ["the error variant of set_derivative is not checked (statement: 'an error')"],
    quick=dict(proptest={"rel": (12, 40000), "dbg": (4, 8000)}),
    thorough=dict(proptest={"rel": (16, 250000), "dbg": (8, 60000)}),
)

PLAN["C05"] = dict(
    rule=RX_GEN % 10 + ", with operator weights biased to inter/diff/complement so that semantically empty sub-terms are frequent; the final slot and one other slot are examined. "
         "Non-trivial = final language empty although the term is not the syntactic empty term, or a witness of length >= 2; distinct = digest of (landmarks, program).",
    oracle="is_empty_re(e) <=> the reference DFA has no reachable final state; get_string(e) is None <=> empty; a witness is_good(), is a member by the DP matcher (R3), by str_in_re, and is accepted by compile(e)",
    assumptions=RX_ASSUME,
    quick=dict(proptest={"rel": (12, 40000), "dbg": (4, 8000)}),
    thorough=dict(proptest={"rel": (16, 300000), "dbg": (8, 80000)}),
)

PLAN["C18"] = dict(
    rule=RX_GEN % 10 + ", biased to inter/diff/complement (semantically empty operands inside intersections, concatenations and loops); for the final slot and one other slot every probed character and every class id (and invalid ids) is queried. "
         "Non-trivial = the program contains an intersection/difference or a semantically empty sub-term, and both answers occur over the probed characters; distinct = digest of (landmarks, program).",
    oracle="start_char(e,c) <=> in the reference DFA the state after atom(c) can reach a final state; start_class(e,cid) gives that value for every probed character of the class (classes recomputed from char_ranges by linear scan); invalid id => Err(BadClassId)",
    assumptions=RX_ASSUME,
    quick=dict(proptest={"rel": (12, 40000), "dbg": (4, 8000)}),
    thorough=dict(proptest={"rel": (16, 250000), "dbg": (8, 60000)}),
)

PLAN["C19"] = dict(
    # the unchanged crate exceeds the closure cap in about 1 case in 100 000 (and 1 in 100 000 without
    # subsumption pruning, patch e4): a discard rate above 0.1 % means derivative sets have stopped being
    # small, which this check can only report as inconclusive (exit 2), never as a pass
    max_discard=0.001,
    rule=RX_GEN % 10 + "; bounds n in {0, 1, N-1, N, N+1, 2N, usize::MAX, random} where N is the derivative count measured by the harness's own BFS. Non-trivial = N >= 4; distinct = digest of (landmarks, program).",
    oracle="iter_derivatives(e): first item is e (pointer), no item repeats, item set == closure computed independently by BFS with char_derivative over all class-boundary characters, and the yielded set is closed; try_compile(e,n) is Some <=> N <= n (None for n = 0); compile(e) succeeds; num_states() == N in both",
    assumptions=RX_ASSUME + ["termination of iter_derivatives is only observable up to the cap of 400 derivatives (a case above the cap is a counted discard; a hang is caught by the watchdog and reported as exit 2)"],
    quick=dict(enum={"rel": 3, "dbg": 3, "o0": 2}, proptest={"rel": (12, 40000), "dbg": (4, 8000)}),
    thorough=dict(enum={"rel": 3, "dbg": 3, "o0": 2}, proptest={"rel": (16, 250000), "dbg": (8, 60000)}),
)

AUTO_GEN = ("generation: tapes decoded either (35%) into a regex program that is compiled, or (65%) into a semantic DFA over 1-4 landmarks' atoms (1-5 base states whose rows are runs of consecutive atoms, all-final / none-final variants), "
            "0-3 cloned (equivalent) states with incoming edges partly redirected, 0-3 states nobody points to, turned into AutomatonBuilder calls with permuted labels, shuffled call order, runs split into adjacent labels, and per state either no default (labels cover everything) or a declared default that some runs are left to")
AUTO_ASSUME = COMMON_ASSUMPTIONS + [
    "automata are observed through next() on the common refinement of the atoms and of every state's own ranges (both ends of every range and the characters just outside, 0 and 0x2FFFF)",
    "state ranges are read through CharSet::pick()/size() and cross-checked with next(); characters strictly inside a range are assumed to behave like its ends (class_of_char is checked in C11)",
]

PLAN["C04"] = dict(
    rule="enumeration: 10 scale cases (two states that differ only on alphabet classes of index beyond 2^16; counter automata modulo n with m labelled characters and every state duplicated, up to 66000 labelled characters; automata with up to 66000 equivalent sinks and the accepting state at the largest id) whose Myhill-Nerode index is known in closed form; " + AUTO_GEN + "; the same source is built twice (A kept, B minimised). Non-trivial = A has two equivalent states (Moore refinement through next() finds fewer classes than states) and >= 2 classes remain; distinct = digest of the source.",
    oracle="independent Moore partition refinement written in the harness, run through next() only: L(B) = L(A) = reference language by exact product (R5); refinement of B yields B.num_states() classes (no two equivalent states); when every state of A is reachable B.num_states() equals the size of the minimal complete reference DFA (Myhill-Nerode index); a second minimize changes nothing; initial state, is_final, num_final_states, final_states consistent",
    assumptions=AUTO_ASSUME,
    quick=dict(enum={"rel": 4, "dbg": 4, "o0": 2}, proptest={"rel": (12, 40000), "dbg": (4, 8000)}),
    thorough=dict(enum={"rel": 4, "dbg": 4, "o0": 2}, proptest={"rel": (16, 250000), "dbg": (8, 60000)}),
)

PLAN["C13"] = dict(
    rule="generation: a complete deterministic specification produced as for C04 (permuted labels, shuffled calls, split runs, defaults only where needed), then 0-2 mutations: drop a default, drop a transition, add an overlapping transition with a different / the same target, declare a default where everything is covered, shrink a label by one character, redirect a transition to a label that is never defined. "
         "Non-trivial = >= 2 labels and (the specification has a conflict or an incomplete state, or some state has >= 2 transitions and no default); distinct = digest of the call sequence.",
    oracle="the specification's own meaning by linear scan per state: conflict (a character in two labels with different targets), incomplete (a character with neither label nor declared default); Ok => neither holds anywhere; a specification with pairwise disjoint labels, complete, defaults declared only where a gap is left => must be Ok; for Ok: lock-step walk from initial_state() and the label given to new builds a label<->state bijection under which is_final = marked and, for every break-point character, the successor is the explicit transition covering it, else the declared default; num_states = labels mentioned, num_final_states = labels marked",
    assumptions=COMMON_ASSUMPTIONS + ["error variants and state ids are not checked; same-target overlaps and a default declared although everything is covered may be accepted or rejected (the statement allows both)"],
    quick=dict(enum={"rel": 2, "dbg": 2, "o0": 2}, proptest={"rel": (12, 50000), "dbg": (4, 10000)}),
    thorough=dict(enum={"rel": 2, "dbg": 2, "o0": 2}, proptest={"rel": (16, 400000), "dbg": (8, 100000)}),
)

PLAN["C14"] = dict(
    rule=AUTO_GEN + "; built twice (A kept, B pruned). Non-trivial = at least one unreachable state is removed, or the automaton has >= 3 states of which >= 2 have both explicit transitions and a default (sparse rows that share the compact table); distinct = digest of the source.",
    oracle="reference reachability by BFS through next(); after remove_unreachable_states: num_states = |reach|, a lock-step walk from the initial states is a bijection reach(A) <-> states(B) preserving finality and every transition, language unchanged (product with the reference DFA); combined_char_partition: all break-point characters that fall in one class have identical next() in every state; pick_alphabet hits every class exactly once; compile_successors().eval(id, i) = next(state, alphabet[i]).id for EVERY cell; edges(s) = one pair per range plus one for the default, each equal to next/class_next; num_states/num_final_states/final_states/ids consistent with states()",
    assumptions=AUTO_ASSUME,
    quick=dict(enum={"rel": 3, "dbg": 3, "o0": 2}, proptest={"rel": (12, 25000), "dbg": (4, 6000)}),
    thorough=dict(enum={"rel": 3, "dbg": 3, "o0": 2}, proptest={"rel": (16, 200000), "dbg": (8, 50000)}),
)

PLAN["C07"] = dict(
    rule="enumeration: 3 scale cases (one manager holding a term with 15 / 280 / 65792 derivative classes: every class derivative of the term and of its complement, requested interleaved, then the construction re-issued); stateful generation: a tape is decoded into 2-15 operations on ONE manager: Build(constructor call on earlier slots, unions/intersections of two different earlier slots in either operand order over-weighted), Rebuild(k) (the very same call with the very same argument terms), Deriv(k,c), StrDeriv(k,w) (new slots whose reference language is the quotient), Compile(k), IsEmpty(k), GetString(k), Member(k,w), Noise (1-6 unrelated terms shifting ids and parity); 80% on a local ReManager, 20% through the re_* wrappers on the thread-local manager in a fresh thread. At the end every construction is re-issued once more and rebuilt on a fresh manager. "
         "Non-trivial = a Rebuild (or the final re-issue) separated from its Build by >= 3 allocating operations including a derivative/compile/emptiness call, and a union/intersection whose operands are not in increasing slot order; distinct = digest of (manager kind, landmarks, operation list).",
    oracle="model: every slot carries the term and its reference DFA (constructor slots: reference operation on the operands' DFAs; derivative slots: reference quotient). After every step: Rebuild is == and pointer-identical; for all pairs of slots a == b <=> same address, and same address => equal reference languages; complement(complement(e)) is e and complement(e) differs from e; the language of each new term (and of its complement) equals its reference by bisimulation (R5), again at the end of the history and on a fresh manager (history independence); is_empty_re/str_in_re answers agree with the reference at every point of the history",
    assumptions=RX_ASSUME + ["union(a,b) and union(b,a) are different argument lists: only equal languages are required of them, not identity", "through the wrappers languages are compared on shortest members/non-members and sampled strings (no derivative API is exposed there)"],
    quick=dict(enum={"rel": 1, "dbg": 1, "o0": 1}, proptest={"rel": (12, 12000), "dbg": (4, 3000)}),
    thorough=dict(enum={"rel": 1, "dbg": 1, "o0": 1}, proptest={"rel": (16, 80000), "dbg": (8, 20000)}),
)

PLAN["C10"] = dict(
    rule="generation: regex programs of 1-8 instructions over the landmarks a..c (so matches are frequent; nullable, empty, complemented and semantically empty patterns arise from the same constructors; a sixth of the patterns are the union of a pattern pair of C16's generator, rigid ranges around Sigma* sections against a near-miss instance), 1-3 subject strings of length 0-8 (80% landmark letters, else other atom representatives), a replacement of length 0-3 that may itself match; executed through the re_* / str_replace_re(_all) wrappers in a fresh thread, each call twice (cold and warm derivative cache). "
         "Non-trivial = a match exists and (the pattern is nullable, or >= 2 match lengths are possible at the chosen start, or >= 2 replacements are made); distinct = digest of (program, subjects, replacement).",
    oracle="membership matrix M[i][j] of the subject from the DP matcher (R3); replace_re: least i with some j >= i, M[i][j], then least such j (j = i allowed): s[..i].t.s[j..], or s if none; replace_re_all: from p, least i >= p with some j > i, least such j, emit s[p..i].t, continue at j, copy the tail; exact equality of the results",
    assumptions=COMMON_ASSUMPTIONS + ["loop-range arithmetic overflow (documented panic) is a counted discard"],
    quick=dict(proptest={"rel": (12, 20000), "dbg": (4, 5000)}),
    thorough=dict(proptest={"rel": (16, 120000), "dbg": (8, 30000)}),
)

PLAN["C16"] = dict(
    rule="generation: a pattern s = concatenation of 1-5 elements (ranges, Sigma*, loops of ranges, all_chars) and a term r derived from it element-wise (same / narrower range / near miss: wider or shifted range, loop instead of range, dropped or duplicated element; Sigma* replaced by 0-3 arbitrary elements incl. complements and loops), then 0-5 wrappers (complement of r or s, unions and intersections with other slots, random constructor calls); included_in is queried on EVERY ordered pair of slots. "
         "Non-trivial = included_in returned true for two different terms where the first language is not empty and the second is not everything; distinct = digest of (landmarks, program).",
    oracle="r.included_in(s) = true => L(r) subset of L(s) by the reference DFAs (R4: product with the complement is empty); false is never judged; every union / union_list slot is bisimilar (R5) to the reference union of its operands (so a pruned operand never loses strings)",
    assumptions=RX_ASSUME,
    quick=dict(proptest={"rel": (12, 15000), "dbg": (4, 4000)}),
    thorough=dict(proptest={"rel": (16, 100000), "dbg": (8, 25000)}),
)
