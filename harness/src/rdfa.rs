//! R4: reference DFA over the atom alphabet, textbook constructions only.
//!
//! A `Dfa` is complete and deterministic over `k` letters (the atoms of the
//! case); after every construction it is restricted to reachable states and
//! minimised with Moore's algorithm, so language equality is structural
//! isomorphism (and `equiv` checks it by product anyway).

use std::collections::{BTreeMap, HashMap};

#[derive(Clone, Debug)]
pub struct Dfa {
    pub k: usize,
    /// trans[s*k + x]
    pub trans: Vec<u32>,
    pub fin: Vec<bool>,
    pub start: u32,
}

#[derive(Debug)]
pub struct TooBig;

pub const STATE_CAP: usize = 3000;

impl Dfa {
    pub fn n(&self) -> usize {
        self.fin.len()
    }
    #[inline]
    pub fn step(&self, s: u32, x: usize) -> u32 {
        self.trans[s as usize * self.k + x]
    }
    pub fn is_final(&self, s: u32) -> bool {
        self.fin[s as usize]
    }
    pub fn run(&self, w: &[usize]) -> u32 {
        let mut s = self.start;
        for &x in w {
            s = self.step(s, x);
        }
        s
    }
    pub fn accepts(&self, w: &[usize]) -> bool {
        self.is_final(self.run(w))
    }

    pub fn empty(k: usize) -> Dfa {
        Dfa { k, trans: vec![0; k], fin: vec![false], start: 0 }
    }
    pub fn full(k: usize) -> Dfa {
        Dfa { k, trans: vec![0; k], fin: vec![true], start: 0 }
    }
    pub fn epsilon(k: usize) -> Dfa {
        // 0: start/final, 1: sink
        let mut trans = vec![1; 2 * k];
        for x in 0..k {
            trans[k + x] = 1;
        }
        Dfa { k, trans, fin: vec![true, false], start: 0 }
    }
    /// words of length one whose letter is in `set`
    pub fn letters(k: usize, set: &[usize]) -> Dfa {
        // 0 start, 1 accept, 2 sink
        let mut trans = vec![2u32; 3 * k];
        for &x in set {
            trans[x] = 1;
        }
        Dfa { k, trans, fin: vec![false, true, false], start: 0 }.minimized()
    }
    /// the single word w
    pub fn word(k: usize, w: &[usize]) -> Dfa {
        let n = w.len();
        let sink = (n + 1) as u32;
        let mut trans = vec![sink; (n + 2) * k];
        for (i, &x) in w.iter().enumerate() {
            trans[i * k + x] = (i + 1) as u32;
        }
        let mut fin = vec![false; n + 2];
        fin[n] = true;
        Dfa { k, trans, fin, start: 0 }.minimized()
    }

    pub fn complement(&self) -> Dfa {
        let mut d = self.clone();
        for f in d.fin.iter_mut() {
            *f = !*f;
        }
        d
    }

    fn product(&self, other: &Dfa, op: impl Fn(bool, bool) -> bool) -> Result<Dfa, TooBig> {
        assert_eq!(self.k, other.k);
        let k = self.k;
        let mut index: HashMap<(u32, u32), u32> = HashMap::new();
        let mut states: Vec<(u32, u32)> = Vec::new();
        let mut trans: Vec<u32> = Vec::new();
        index.insert((self.start, other.start), 0);
        states.push((self.start, other.start));
        let mut i = 0;
        while i < states.len() {
            let (a, b) = states[i];
            for x in 0..k {
                let na = self.step(a, x);
                let nb = other.step(b, x);
                let id = match index.get(&(na, nb)) {
                    Some(&id) => id,
                    None => {
                        let id = states.len() as u32;
                        if states.len() >= STATE_CAP * 4 {
                            return Err(TooBig);
                        }
                        index.insert((na, nb), id);
                        states.push((na, nb));
                        id
                    }
                };
                trans.push(id);
            }
            i += 1;
        }
        let fin = states.iter().map(|&(a, b)| op(self.is_final(a), other.is_final(b))).collect();
        let d = Dfa { k, trans, fin, start: 0 }.minimized();
        if d.n() > STATE_CAP {
            return Err(TooBig);
        }
        Ok(d)
    }

    pub fn union(&self, o: &Dfa) -> Result<Dfa, TooBig> {
        self.product(o, |a, b| a || b)
    }
    pub fn inter(&self, o: &Dfa) -> Result<Dfa, TooBig> {
        self.product(o, |a, b| a && b)
    }
    pub fn diff(&self, o: &Dfa) -> Result<Dfa, TooBig> {
        self.product(o, |a, b| a && !b)
    }

    /// concatenation by subset construction on (state of self, set of states of other)
    pub fn concat(&self, other: &Dfa) -> Result<Dfa, TooBig> {
        assert_eq!(self.k, other.k);
        let k = self.k;
        type Key = (u32, Vec<u32>);
        let mut index: BTreeMap<Key, u32> = BTreeMap::new();
        let mut states: Vec<Key> = Vec::new();
        let mut trans: Vec<u32> = Vec::new();
        let init: Key = (self.start, if self.is_final(self.start) { vec![other.start] } else { vec![] });
        index.insert(init.clone(), 0);
        states.push(init);
        let mut i = 0;
        while i < states.len() {
            let (a, set) = states[i].clone();
            for x in 0..k {
                let na = self.step(a, x);
                let mut ns: Vec<u32> = set.iter().map(|&b| other.step(b, x)).collect();
                if self.is_final(na) {
                    ns.push(other.start);
                }
                ns.sort_unstable();
                ns.dedup();
                let key = (na, ns);
                let id = match index.get(&key) {
                    Some(&id) => id,
                    None => {
                        let id = states.len() as u32;
                        if states.len() >= STATE_CAP * 4 {
                            return Err(TooBig);
                        }
                        index.insert(key.clone(), id);
                        states.push(key);
                        id
                    }
                };
                trans.push(id);
            }
            i += 1;
        }
        let fin = states.iter().map(|(_, set)| set.iter().any(|&b| other.is_final(b))).collect();
        let d = Dfa { k, trans, fin, start: 0 }.minimized();
        if d.n() > STATE_CAP {
            return Err(TooBig);
        }
        Ok(d)
    }

    /// L+ : subset construction on sets of states with restart at final states
    pub fn plus(&self) -> Result<Dfa, TooBig> {
        let k = self.k;
        let mut index: BTreeMap<Vec<u32>, u32> = BTreeMap::new();
        let mut states: Vec<Vec<u32>> = Vec::new();
        let mut trans: Vec<u32> = Vec::new();
        let init = vec![self.start];
        index.insert(init.clone(), 0);
        states.push(init);
        let mut i = 0;
        while i < states.len() {
            let set = states[i].clone();
            for x in 0..k {
                let mut ns: Vec<u32> = set.iter().map(|&b| self.step(b, x)).collect();
                if ns.iter().any(|&b| self.is_final(b)) {
                    ns.push(self.start);
                }
                ns.sort_unstable();
                ns.dedup();
                let id = match index.get(&ns) {
                    Some(&id) => id,
                    None => {
                        let id = states.len() as u32;
                        if states.len() >= STATE_CAP * 4 {
                            return Err(TooBig);
                        }
                        index.insert(ns.clone(), id);
                        states.push(ns);
                        id
                    }
                };
                trans.push(id);
            }
            i += 1;
        }
        let fin = states.iter().map(|set| set.iter().any(|&b| self.is_final(b))).collect();
        let d = Dfa { k, trans, fin, start: 0 }.minimized();
        if d.n() > STATE_CAP {
            return Err(TooBig);
        }
        Ok(d)
    }

    pub fn star(&self) -> Result<Dfa, TooBig> {
        self.plus()?.union(&Dfa::epsilon(self.k))
    }

    pub fn opt(&self) -> Result<Dfa, TooBig> {
        self.union(&Dfa::epsilon(self.k))
    }

    /// L^n by repeated concatenation
    pub fn power(&self, n: u32) -> Result<Dfa, TooBig> {
        let mut r = Dfa::epsilon(self.k);
        for _ in 0..n {
            r = r.concat(self)?;
        }
        Ok(r)
    }

    /// union of L^i for lo <= i <= hi (hi = None: unbounded); SMT-LIB re.loop / re.^ / re.* / re.+
    pub fn repeat(&self, lo: u32, hi: Option<u32>) -> Result<Dfa, TooBig> {
        let base = self.power(lo)?;
        match hi {
            None => base.concat(&self.star()?),
            Some(h) => {
                assert!(h >= lo);
                let o = self.opt()?;
                let mut r = base;
                for _ in lo..h {
                    r = r.concat(&o)?;
                }
                Ok(r)
            }
        }
    }

    /// left quotient by one letter
    pub fn quotient(&self, x: usize) -> Dfa {
        let mut d = self.clone();
        d.start = self.step(self.start, x);
        d.minimized()
    }

    pub fn quotient_state(&self, s: u32) -> Dfa {
        let mut d = self.clone();
        d.start = s;
        d.minimized()
    }

    /// restrict to reachable states, then Moore minimisation
    pub fn minimized(&self) -> Dfa {
        let k = self.k;
        // reachable
        let n = self.n();
        let mut order: Vec<u32> = Vec::new();
        let mut seen = vec![false; n];
        seen[self.start as usize] = true;
        order.push(self.start);
        let mut i = 0;
        while i < order.len() {
            let s = order[i];
            for x in 0..k {
                let t = self.step(s, x);
                if !seen[t as usize] {
                    seen[t as usize] = true;
                    order.push(t);
                }
            }
            i += 1;
        }
        // Moore: class[s] refined until stable
        let m = order.len();
        let mut pos = vec![u32::MAX; n];
        for (i, &s) in order.iter().enumerate() {
            pos[s as usize] = i as u32;
        }
        let mut class: Vec<u32> = order.iter().map(|&s| self.fin[s as usize] as u32).collect();
        let mut nclasses = {
            let mut c = class.clone();
            c.sort_unstable();
            c.dedup();
            c.len()
        };
        loop {
            let mut sigs: BTreeMap<Vec<u32>, u32> = BTreeMap::new();
            let mut newc = vec![0u32; m];
            for i in 0..m {
                let s = order[i];
                let mut sig = Vec::with_capacity(k + 1);
                sig.push(class[i]);
                for x in 0..k {
                    sig.push(class[pos[self.step(s, x) as usize] as usize]);
                }
                let next_id = sigs.len() as u32;
                let id = *sigs.entry(sig).or_insert(next_id);
                newc[i] = id;
            }
            let cnt = sigs.len();
            class = newc;
            if cnt == nclasses {
                break;
            }
            nclasses = cnt;
        }
        // renumber classes in BFS order of first occurrence (canonical form)
        let mut remap = vec![u32::MAX; nclasses];
        let mut next = 0u32;
        let mut rep: Vec<usize> = Vec::new();
        for i in 0..m {
            let c = class[i] as usize;
            if remap[c] == u32::MAX {
                remap[c] = next;
                next += 1;
                rep.push(i);
            }
        }
        let mut trans = Vec::with_capacity(nclasses * k);
        let mut fin = Vec::with_capacity(nclasses);
        for &i in &rep {
            let s = order[i];
            fin.push(self.fin[s as usize]);
            for x in 0..k {
                let t = self.step(s, x);
                trans.push(remap[class[pos[t as usize] as usize] as usize]);
            }
        }
        Dfa { k, trans, fin, start: 0 }
    }

    /// language emptiness (on a reachable-only automaton)
    pub fn is_empty_lang(&self) -> bool {
        let m = self.minimized();
        !m.fin.iter().any(|&f| f)
    }

    pub fn is_full_lang(&self) -> bool {
        let m = self.minimized();
        m.fin.iter().all(|&f| f)
    }

    /// for every state: can a final state be reached?
    pub fn live_states(&self) -> Vec<bool> {
        let n = self.n();
        let k = self.k;
        let mut live = self.fin.clone();
        loop {
            let mut changed = false;
            for s in 0..n {
                if !live[s] {
                    for x in 0..k {
                        if live[self.trans[s * k + x] as usize] {
                            live[s] = true;
                            changed = true;
                            break;
                        }
                    }
                }
            }
            if !changed {
                break;
            }
        }
        live
    }

    pub fn equiv(&self, other: &Dfa) -> bool {
        match self.product(other, |a, b| a != b) {
            Ok(d) => d.is_empty_lang(),
            Err(_) => false,
        }
    }

    pub fn subset_of(&self, other: &Dfa) -> Option<bool> {
        match self.diff(other) {
            Ok(d) => Some(d.is_empty_lang()),
            Err(_) => None,
        }
    }

    /// a shortest accepted word, if any
    pub fn shortest_word(&self) -> Option<Vec<usize>> {
        let n = self.n();
        let mut pred: Vec<Option<(u32, usize)>> = vec![None; n];
        let mut seen = vec![false; n];
        let mut q = std::collections::VecDeque::new();
        seen[self.start as usize] = true;
        q.push_back(self.start);
        while let Some(s) = q.pop_front() {
            if self.is_final(s) {
                let mut w = Vec::new();
                let mut cur = s;
                while let Some((p, x)) = pred[cur as usize] {
                    w.push(x);
                    cur = p;
                }
                w.reverse();
                return Some(w);
            }
            for x in 0..self.k {
                let t = self.step(s, x);
                if !seen[t as usize] {
                    seen[t as usize] = true;
                    pred[t as usize] = Some((s, x));
                    q.push_back(t);
                }
            }
        }
        None
    }
}
