//! C12 — merge_partitions returns the coarsest common refinement (interval reading, see DESIGN.md).

use crate::atoms::MAX;
use crate::ivl::{all_partitions, Universe};
use crate::p_c11::{gen_partition, show_part};
use crate::runner::{Cx, EnumSink, Outcome};
use crate::tape::{fnv, Tape};
use aws_smt_strings::character_sets::{merge_partition_list, merge_partitions, CharPartition};

type Part = Vec<(u32, u32)>;

thread_local! {
    /// how partitions are constructed for the current case: 0 = push in order, 1 = try_from_iter on the
    /// reversed list, 2 = try_from_iter on a rotated list (merge must not care how its inputs were built)
    static BUILD_MODE: std::cell::Cell<u8> = std::cell::Cell::new(0);
}

fn build(ivs: &[(u32, u32)]) -> CharPartition {
    let mode = BUILD_MODE.with(|m| m.get());
    if mode == 0 || ivs.len() < 2 {
        if mode != 0 && ivs.len() == 1 {
            return CharPartition::from_set(&aws_smt_strings::character_sets::CharSet::range(ivs[0].0, ivs[0].1));
        }
        let mut p = CharPartition::new();
        for &(a, b) in ivs {
            p.push(a, b);
        }
        return p;
    }
    let mut v: Vec<aws_smt_strings::character_sets::CharSet> = ivs.iter().map(|&(a, b)| aws_smt_strings::character_sets::CharSet::range(a, b)).collect();
    if mode == 1 {
        v.reverse();
    } else {
        v.rotate_left(1);
    }
    CharPartition::try_from_iter(v.into_iter()).expect("disjoint intervals")
}

/// class of character c in the partition given as a list: Some(i) or None (complement)
fn class_of(ivs: &[(u32, u32)], c: u32) -> Option<usize> {
    ivs.iter().position(|&(a, b)| a <= c && c <= b)
}

/// same intervals (the witness may legitimately differ, it only has to be correct)
fn same(p: &CharPartition, q: &CharPartition) -> bool {
    result_intervals(p) == result_intervals(q) && p.empty_complement() == q.empty_complement()
}

fn result_intervals(r: &CharPartition) -> Vec<(u32, u32)> {
    (0..r.len()).map(|i| r.get(i)).collect()
}

/// check that r is the coarsest common refinement of `parts`
pub fn check_merge(parts: &[Part], r: &CharPartition, what: &str, o: &mut Outcome) {
    o.evals += 1;
    let riv = result_intervals(r);
    let desc = || format!("{} of {} = {}", what, parts.iter().map(|p| show_part(p)).collect::<Vec<_>>().join(" , "), show_part(&riv));
    // well-formed: sorted, disjoint, within the alphabet
    let mut prev_end: Option<u32> = None;
    for &(a, b) in &riv {
        if a > b || b > MAX || prev_end.map_or(false, |e| a <= e) {
            o.fail("C12/not-sorted-disjoint", desc());
            return;
        }
        prev_end = Some(b);
    }
    // segments of [0, MAX] induced by all end points (inputs and result); sweep with binary searches,
    // so that the oracle has no size limit
    let mut cuts: Vec<u32> = vec![0];
    for &(a, b) in riv.iter().chain(parts.iter().flat_map(|p| p.iter())) {
        cuts.push(a);
        if b < MAX {
            cuts.push(b + 1);
        }
    }
    cuts.sort_unstable();
    cuts.dedup();
    let find = |ivs: &[(u32, u32)], c: u32| -> Option<usize> {
        // ivs sorted and disjoint
        let k = ivs.partition_point(|&(_, hi)| hi < c);
        if k < ivs.len() && ivs[k].0 <= c {
            Some(k)
        } else {
            None
        }
    };
    let sorted_inputs: Vec<bool> = parts.iter().map(|p| p.windows(2).all(|w| w[0].1 < w[1].0)).collect();
    let label = |c: u32| -> Vec<Option<usize>> { parts.iter().enumerate().map(|(k, p)| if sorted_inputs[k] { find(p, c) } else { class_of(p, c) }).collect() };
    let all_comp = |l: &Vec<Option<usize>>| l.iter().all(|x| x.is_none());
    let mut prev: Option<(usize, Vec<Option<usize>>)> = None; // (interval of r, label) of the previous covered segment
    let mut uncovered_witness: Option<u32> = None;
    let mut first_label_of: Vec<Option<Vec<Option<usize>>>> = vec![None; riv.len()];
    for &c in &cuts {
        let l = label(c);
        match find(&riv, c) {
            Some(k) => {
                // (1) intervals of r carry no all-complement label, and one label only
                if all_comp(&l) {
                    o.fail("C12/interval-outside-inputs", desc());
                    return;
                }
                if let Some((pk, pl)) = &prev {
                    if *pk == k && *pl != l {
                        o.fail("C12/class-mixes-input-classes", desc());
                        return;
                    }
                }
                if first_label_of[k].is_none() {
                    first_label_of[k] = Some(l.clone());
                }
                prev = Some((k, l));
            }
            None => {
                // (2) the complement of r is exactly the intersection of the input complements
                if !all_comp(&l) {
                    o.fail("C12/loses-characters", desc());
                    return;
                }
                if uncovered_witness.is_none() {
                    uncovered_witness = Some(c);
                }
                prev = None;
            }
        }
    }
    // (3) maximality: two adjacent intervals of r never have the same label
    for (k, w) in riv.windows(2).enumerate() {
        if w[0].1 + 1 == w[1].0 && first_label_of[k].is_some() && first_label_of[k] == first_label_of[k + 1] {
            o.fail("C12/not-maximal", desc());
            return;
        }
    }
    // (4) complement witness
    let w = r.pick_complement();
    if uncovered_witness.is_none() {
        if !r.empty_complement() || w != MAX + 1 {
            o.fail("C12/witness", format!("{}: complement is empty but empty_complement() = {}, witness = {:#x}", desc(), r.empty_complement(), w));
        }
    } else if r.empty_complement() || w > MAX || find(&riv, w).is_some() {
        o.fail("C12/witness", format!("{}: witness {:#x} / empty_complement() = {} wrong", desc(), w, r.empty_complement()));
    }
}

pub fn check_pair(p1: &Part, p2: &Part, o: &mut Outcome) {
    let a = build(p1);
    let b = build(p2);
    let r = merge_partitions(&a, &b);
    check_merge(&[p1.clone(), p2.clone()], &r, "merge", o);
    // neutral element and idempotence
    o.evals += 3;
    let e = CharPartition::new();
    if !same(&merge_partitions(&a, &e), &a) || !same(&merge_partitions(&e, &a), &a) {
        o.fail("C12/neutral", format!("merge with the empty partition changes {}", show_part(p1)));
    }
    if !same(&merge_partitions(&a, &a), &a) {
        o.fail("C12/idempotent", format!("merge(p,p) != p for {}", show_part(p1)));
    }
    // symmetric
    if !same(&merge_partitions(&b, &a), &r) {
        o.fail("C12/order-dependent", format!("merge({},{}) != merge in the other order", show_part(p1), show_part(p2)));
    }
}

pub fn check_list(parts: &[Part], o: &mut Outcome) {
    let built: Vec<CharPartition> = parts.iter().map(|p| build(p)).collect();
    let r = merge_partition_list(built.iter());
    check_merge(parts, &r, "merge_partition_list", o);
    o.evals += 2;
    // independent of order: reversed and rotated
    let r2 = merge_partition_list(built.iter().rev());
    if !same(&r2, &r) {
        o.fail("C12/order-dependent", format!("merge_partition_list of {:?} depends on the order", parts.iter().map(|p| show_part(p)).collect::<Vec<_>>()));
    }
    if built.len() >= 4 {
        let mut rot: Vec<&CharPartition> = built.iter().collect();
        rot.rotate_left(built.len() / 2);
        if !same(&merge_partition_list(rot.into_iter()), &r) {
            o.fail("C12/order-dependent", format!("merge_partition_list of {} partitions depends on the order (rotation by half)", built.len()));
        }
    }
    if built.len() >= 2 {
        let mut rot: Vec<&CharPartition> = built.iter().collect();
        rot.rotate_left(1);
        if !same(&merge_partition_list(rot.into_iter()), &r) {
            o.fail("C12/order-dependent", format!("merge_partition_list of {:?} depends on the order (rotation)", parts.iter().map(|p| show_part(p)).collect::<Vec<_>>()));
        }
    }
    // the argument is "an iterator": the same list through adaptors whose size_hint is inexact or
    // whose items arrive lazily must give the same fold
    o.evals += 3;
    let shapes: [(&str, CharPartition); 3] = [
        ("filter", merge_partition_list(built.iter().filter(|_| true))),
        ("once+chain+skip_while", {
            let extra = CharPartition::new();
            merge_partition_list(std::iter::once(&extra).chain(built.iter().skip_while(|_| false)))
        }),
        ("from_fn", {
            let mut k = 0;
            merge_partition_list(std::iter::from_fn(|| {
                k += 1;
                built.get(k - 1)
            }))
        }),
    ];
    for (name, r3) in &shapes {
        if !same(r3, &r) {
            o.fail("C12/iterator-shape", format!("merge_partition_list of {:?} gives a different result when the list is passed through {}", parts.iter().map(|p| show_part(p)).collect::<Vec<_>>(), name));
        }
    }
    // empty list -> empty partition
    if parts.is_empty() && !same(&r, &CharPartition::new()) {
        o.fail("C12/neutral", "merge_partition_list([]) is not the empty partition".into());
    }
}

/// Alphabet-sized partitions: every character its own interval, except `holes` left uncovered or
/// `blocks` kept as longer intervals; merged with small partitions that cover / cut those places.
/// Judged by the same oracle as every other case (check_pair); the probe set of the oracle is derived
/// from the interval end points, so it is restricted here to the neighbourhood of the special places.
fn scale_cases(sink: &mut EnumSink) {
    let singletons_except = |skip: &dyn Fn(u32) -> bool| -> Part { (0..=MAX).filter(|&c| !skip(c)).map(|c| (c, c)).collect() };
    let cases: Vec<(Part, Part, &str)> = vec![
        (singletons_except(&|c| c == 0x1234), vec![(0x1230, 0x1238)], "all singletons but one hole x an interval over the hole"),
        (singletons_except(&|c| c == 0x1234), vec![], "all singletons but one hole x the empty partition"),
        (singletons_except(&|c| c == MAX), vec![(MAX - 3, MAX)], "all singletons but MAX x an interval ending at MAX"),
        (singletons_except(&|c| c == 0), vec![(0, 0)], "all singletons but 0 x {[0,0]}"),
        (singletons_except(&|_| false), vec![(7, 9000)], "the discrete partition x one interval"),
        (singletons_except(&|c| c % 2 == 1), vec![(100, 200), (0x2F000, MAX)], "all even singletons x two intervals"),
    ];
    for (big, small, what) in cases {
        let mut o = Outcome::default();
        crate::runner::on_user_stack(|| scale_pair(&big, &small, &mut o));
        sink.case(&o, true, || format!("scale case: {}", what));
        if sink.failed() {
            return;
        }
    }
    // near-twin partitions ("a fingerprint stands for the partition"): two partitions of equal length whose
    // bounds are equal except two neighbouring ones, which differ by (+a, -m*a) or (-m*a, +a) for the
    // multipliers polynomial and rotate-xor checksums commonly use; merged in both orders
    let mults: [i64; 12] = [1, 2, 31, 33, 37, 127, 131, 251, 257, 65_521, 65_537, 65_599];
    let mut n_twin = 0usize;
    for &m in &mults {
        for a in [1i64, -1, 2] {
            for shape in 0..3 {
                // base bounds x0 <= x1 < x2 <= x3, perturb the pair (x_i, x_{i+1})
                let base: [i64; 4] = [100, 90_000, 120_000, 190_000];
                for first in 0..3usize {
                    for swap in [false, true] {
                        let mut tw = base;
                        let (d0, d1) = if swap { (-m * a, a) } else { (a, -m * a) };
                        tw[first] += d0;
                        tw[first + 1] += d1;
                        let ok = |b: &[i64; 4]| b[0] >= 0 && b[0] <= b[1] && b[1] < b[2] && b[2] <= b[3] && b[3] <= MAX as i64;
                        if !ok(&tw) {
                            continue;
                        }
                        let mk = |b: &[i64; 4]| -> Part {
                            match shape {
                                0 => vec![(b[0] as u32, b[1] as u32), (b[2] as u32, b[3] as u32)],
                                1 => vec![(b[0] as u32, b[3] as u32)].into_iter().filter(|_| first == 0 && false).chain(vec![(b[1] as u32, b[2] as u32)]).collect(),
                                _ => vec![(0, 5), (b[0] as u32, b[1] as u32), (b[2] as u32, b[3] as u32), (MAX - 3, MAX)],
                            }
                        };
                        let (pa, pb) = (mk(&base), mk(&tw));
                        if pa == pb {
                            continue;
                        }
                        let mut o = Outcome::default();
                        check_pair(&pa, &pb, &mut o);
                        check_pair(&pb, &pa, &mut o);
                        n_twin += 1;
                        sink.case(&o, true, || format!("near-twin partitions {} / {}", show_part(&pa), show_part(&pb)));
                        if sink.failed() {
                            return;
                        }
                    }
                }
            }
        }
    }
    sink.stats.exhaustive_spaces.push(format!("{} near-twin pairs of partitions: equal bounds except two neighbouring ones that differ by (+a, -m*a) / (-m*a, +a), a in {{1,-1,2}}, m in {:?}", n_twin, mults));
    sink.stats.exhaustive_spaces.push("6 scale cases with partitions of 98 304 - 196 608 singleton intervals".to_string());
}

/// merge of an alphabet-sized partition with a small one, in both orders and as a list
fn scale_pair(big: &Part, small: &Part, o: &mut Outcome) {
    let a = build(big);
    let b = build(small);
    let show = |p: &Part| if p.len() > 8 { format!("<{} intervals>", p.len()) } else { show_part(p) };
    for (r, parts, what) in [
        (merge_partitions(&a, &b), vec![big.clone(), small.clone()], "merge_partitions(big, small)"),
        (merge_partitions(&b, &a), vec![small.clone(), big.clone()], "merge_partitions(small, big)"),
        (merge_partition_list([&a, &b].into_iter()), vec![big.clone(), small.clone()], "merge_partition_list([big, small])"),
    ] {
        let before = o.fails.len();
        check_merge(&parts, &r, what, o);
        if o.fails.len() > before {
            // the generic message would print ~200 000 intervals
            let f = o.fails.last_mut().unwrap();
            f.msg = format!("{} with big = {}, small = {}: result has {} intervals, empty_complement() = {}, witness {:#x}", what, show(big), show(small), r.len(), r.empty_complement(), r.pick_complement());
            return;
        }
    }
}

fn interesting(p1: &Part, p2: &Part) -> bool {
    // nested / interleaved / adjacent across the two partitions
    for &(a, b) in p1 {
        for &(c, d) in p2 {
            let overlap = !(b < c || d < a);
            let adjacent = b + 1 == c || d + 1 == a;
            if (overlap && (a, b) != (c, d)) || adjacent {
                return true;
            }
        }
    }
    false
}

/// second partition derived from the first (shared boundaries) or independent
fn gen_related(t: &mut Tape, p1: &Part) -> Part {
    if p1.is_empty() || t.bool_p(100) {
        return gen_partition(t, 6);
    }
    // walk through p1's boundaries and choose cut points near them
    let mut pts: Vec<u32> = Vec::new();
    for &(a, b) in p1 {
        for c in [a.saturating_sub(1), a, (a + 1).min(MAX), b.saturating_sub(1), b, (b + 1).min(MAX), a + (b - a) / 2] {
            pts.push(c);
        }
    }
    pts.push(0);
    pts.push(MAX);
    pts.sort_unstable();
    pts.dedup();
    let mut v: Part = Vec::new();
    let mut i = 0;
    while i < pts.len() && v.len() < 6 {
        if t.bool_p(110) {
            let a = pts[i];
            let j = (i + t.choose(4)).min(pts.len() - 1);
            let b = pts[j];
            if v.last().map_or(true, |l: &(u32, u32)| l.1 < a) {
                v.push((a, b));
            }
            i = j + 1;
        } else {
            i += 1;
        }
    }
    v
}

pub fn run(tape: &[u8], cx: &Cx) -> Outcome {
    let mut t = Tape::new(tape);
    let mut p1 = gen_partition(&mut t, 6);
    let mut p2 = gen_related(&mut t, &p1);
    // an eighth of the cases: two long partitions (10-40 intervals) that share a long run of identical
    // intervals and differ in one place: an interval of one of them shrunk, widened, split or dropped
    // (block-wise copying of common runs)
    if t.bool_p(32) {
        let n = 10 + t.choose(31);
        let mut pos = t.u32_in(0, 40);
        p1 = Vec::new();
        for _ in 0..n {
            let w = t.u32_in(0, 5);
            p1.push((pos, pos + w));
            pos += w + 1 + t.u32_in(0, 3);
        }
        p2 = p1.clone();
        let k = t.choose(n);
        let (a, b) = p2[k];
        match t.choose(5) {
            0 if b > a => p2[k] = (a + 1, b),
            1 if b > a => p2[k] = (a, b - 1),
            2 if b > a + 1 => {
                p2[k] = (a, a);
                p2.insert(k + 1, (a + 2, b));
            }
            3 => {
                p2.remove(k);
            }
            _ => {
                let lo = if k == 0 { a.saturating_sub(1) } else { (p2[k - 1].1 + 1).max(a.saturating_sub(1)) };
                p2[k] = (lo.min(a), b);
            }
        }
        if t.flag() {
            std::mem::swap(&mut p1, &mut p2);
        }
    }
    let extra = t.choose(3);
    let mut parts = vec![p1.clone(), p2.clone()];
    for _ in 0..extra {
        let base = parts[t.choose(parts.len())].clone();
        parts.push(gen_related(&mut t, &base));
    }
    // long lists (list-folding strategies such as pairwise reduction only differ on longer lists):
    // many small partitions, possibly empty ones, each contributing its own boundaries
    if t.bool_p(45) {
        parts.truncate(1 + t.choose(2));
        parts[0].truncate(2);
        let n = 4 + t.choose(18);
        let mut pos: u32 = t.u32_in(0, 50);
        for _ in 0..n {
            if t.bool_p(30) {
                parts.push(vec![]);
                continue;
            }
            let w = t.u32_in(0, 6);
            let a = pos;
            let b = a + w;
            // mostly fresh territory, sometimes overlapping the previous one
            parts.push(vec![(a, b)]);
            pos = if t.bool_p(60) { a + w / 2 } else { b + 1 + t.u32_in(0, 3) };
        }
        // shuffle
        for i in (1..parts.len()).rev() {
            let j = t.choose(i + 1);
            parts.swap(i, j);
        }
    }
    let p1 = parts[0].clone();
    let p2 = parts.get(1).cloned().unwrap_or_default();
    let mode = t.weighted(&[3, 1, 1]) as u8;
    BUILD_MODE.with(|m| m.set(mode));
    let mut o = Outcome::default();
    o.digest = fnv(format!("{}{:?}", mode, parts).as_bytes());
    if mode != 0 {
        o.tag("inputs-built-by-try_from_iter");
    }
    if cx.render {
        o.render = format!("partitions {}", parts.iter().map(|p| show_part(p)).collect::<Vec<_>>().join(" , "));
    }
    check_pair(&p1, &p2, &mut o);
    check_list(&parts, &mut o);
    check_list(&parts[..1], &mut o);
    check_list(&[], &mut o);
    o.nontrivial = interesting(&p1, &p2);
    if parts.len() > 2 {
        o.tag("list>=3");
    }
    if parts.len() >= 7 {
        o.tag("list>=7");
    }
    if o.nontrivial {
        o.tag("nested/interleaved/adjacent");
    }
    if p1.iter().chain(p2.iter()).any(|&(a, b)| a == 0 || b == MAX) {
        o.tag("touches-0-or-MAX");
    }
    BUILD_MODE.with(|m| m.set(0));
    o
}

/// exhaustive: all ordered pairs of partitions on the universe with parameter n_pairs, all triples on n_triples
pub fn enumerate(n_pairs: u32, n_triples: u32, part: usize, parts: usize, sink: &mut EnumSink) {
    let u = Universe::small_scope(n_pairs);
    let all = all_partitions(&u, usize::MAX);
    for (idx, p1) in all.iter().enumerate() {
        if idx % parts != part {
            continue;
        }
        for p2 in &all {
            let mut o = Outcome::default();
            BUILD_MODE.with(|m| m.set(0));
            check_pair(p1, p2, &mut o);
            // the same pair with inputs constructed by try_from_iter on a reversed list
            BUILD_MODE.with(|m| m.set(1));
            check_pair(p1, p2, &mut o);
            BUILD_MODE.with(|m| m.set(0));
            sink.case(&o, interesting(p1, p2), || format!("merge {} {}", show_part(p1), show_part(p2)));
        }
        if sink.failed() {
            return;
        }
    }
    let u3 = Universe::small_scope(n_triples);
    let all3 = all_partitions(&u3, usize::MAX);
    for (idx, p1) in all3.iter().enumerate() {
        if idx % parts != part {
            continue;
        }
        for p2 in &all3 {
            for p3 in &all3 {
                let mut o = Outcome::default();
                check_list(&[p1.clone(), p2.clone(), p3.clone()], &mut o);
                sink.case(&o, interesting(p1, p2) && interesting(p2, p3), || format!("merge_partition_list {} {} {}", show_part(p1), show_part(p2), show_part(p3)));
            }
        }
        if sink.failed() {
            return;
        }
    }
    // scale cases: partitions with (almost) as many intervals as the alphabet has characters
    if part == parts - 1 {
        scale_cases(sink);
    }
    if part == 0 {
        sink.stats.exhaustive_spaces.push(format!(
            "all ordered pairs of the {} partitions on [0,{n_pairs}) u middle u (MAX-{n_pairs},MAX]; all ordered triples of the {} partitions on the universe with n={n_triples}",
            all.len(),
            all3.len()
        ));
        sink.stats.samples.push(format!("[enum] merge {} {}", show_part(&all[all.len() / 2]), show_part(&all[all.len() / 3])));
    }
}
