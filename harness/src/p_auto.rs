//! C04 — minimize preserves the language and leaves no two equivalent states.
//! C13 — AutomatonBuilder::build accepts only complete deterministic specs and keeps delta.
//! C14 — reachability pruning and the compiled successor table agree with the automaton.

use crate::atoms::{show_char, show_str, Atoms, MAX};
use crate::bisim::{automaton_probe_chars, deriv_closure, moore_classes, product_automaton, reachable_states, ProductResult};
use crate::prog::{Prog, ProgCfg};
use crate::rdfa::Dfa;
use crate::runner::{catch, Cx, Outcome};
use crate::rx;
use crate::spec::{gen_sem, lockstep, mutate, sem_to_spec, state_facts, GenCfg, Mutation, Sem, Spec, WalkResult};
use crate::tape::{fnv, Tape};
use aws_smt_strings::automata::Automaton;
use aws_smt_strings::character_sets::ClassId;
use std::collections::{BTreeMap, BTreeSet, HashMap, VecDeque};

fn sem_dfa(sem: &Sem) -> Dfa {
    let k = sem.atoms.len();
    let mut trans = Vec::with_capacity(sem.delta.len() * k);
    for row in &sem.delta {
        for &x in row {
            trans.push(x as u32);
        }
    }
    Dfa { k, trans, fin: sem.fin.clone(), start: 0 }
}

/// an automaton source: either a compiled program or a built specification; can be built repeatedly
enum Source {
    Compiled(Prog),
    Built(Spec, Sem),
}

struct AutoCase {
    source: Source,
    atoms: Atoms,
    /// reference DFA of the language (from the program or from the semantic automaton)
    dfa: Dfa,
    render: String,
}

impl AutoCase {
    fn build(&self) -> Result<Automaton, String> {
        match &self.source {
            Source::Compiled(p) => {
                let c = rx::setup(p.clone())?;
                let mut mgr = c.mgr;
                let e = *c.terms.last().unwrap();
                catch(move || mgr.compile(e))
            }
            Source::Built(spec, _) => match spec.build()? {
                Ok(a) => Ok(a),
                Err(e) => Err(format!("REJECTED:{:?}", e)),
            },
        }
    }
}

fn gen_case(t: &mut Tape, want_unreachable: bool) -> Result<AutoCase, String> {
    if t.bool_p(90) {
        let prog = Prog::decode(t, &ProgCfg { max_ins: 9, ..ProgCfg::default() });
        let mut c = rx::setup(prog.clone())?;
        let dfas = c.dfas.take().ok_or_else(|| "reference DFA too big".to_string())?;
        let e = *c.terms.last().unwrap();
        if deriv_closure(&mut c.mgr, &prog.atoms, e, rx::CLOSURE_CAP).is_none() {
            return Err("derivative closure above the cap".into());
        }
        let render = format!("compiled from {}", prog.render());
        Ok(AutoCase { atoms: prog.atoms.clone(), dfa: dfas.last().unwrap().clone(), source: Source::Compiled(prog), render })
    } else {
        // mostly small automata; a sixth of the time large ones (worklists, tables and remappings that grow)
        let cfg = if t.bool_p(42) {
            GenCfg { max_landmarks: 3, max_base: 24, max_clones: 12, max_unreachable: if want_unreachable { 6 } else { 2 } }
        } else {
            GenCfg { max_landmarks: 4, max_base: 5, max_clones: 3, max_unreachable: if want_unreachable { 3 } else { 1 } }
        };
        let sem = gen_sem(t, &cfg);
        let spec = sem_to_spec(t, &sem);
        let render = format!("built from {}", spec.render());
        Ok(AutoCase { atoms: sem.atoms.clone(), dfa: sem_dfa(&sem), source: Source::Built(spec, sem), render })
    }
}

fn handle_build_err(id: &str, msg: String, o: &mut Outcome) -> bool {
    // true = discard
    if let Some(m) = msg.strip_prefix("PANIC:") {
        o.fail(&format!("{}/constructor-panics", id), format!("construction panicked: {}", m));
        false
    } else if let Some(e) = msg.strip_prefix("REJECTED:") {
        o.fail(&format!("{}/good-spec-rejected", id), format!("a complete deterministic specification was rejected: {}", e));
        false
    } else if msg.starts_with("loop-range arithmetic overflow (documented panic)") || msg.contains("too big") || msg.contains("above the cap") {
        // only the discard reasons produced by rx::setup / gen_case themselves; any other panic while
        // compiling or building (an arithmetic overflow included) is a failure
        true
    } else {
        o.fail(&format!("{}/build-panics", id), format!("building the automaton panicked: {}", msg));
        false
    }
}

/// finality bookkeeping: num_states / num_final_states / final_states agree with states()/is_final
fn check_counts(a: &Automaton, what: &str, class: &str, o: &mut Outcome) {
    o.evals += 1;
    let n = a.states().count();
    let nf = a.states().filter(|s| s.is_final()).count();
    let listed: Vec<usize> = a.final_states().map(|s| s.id()).collect();
    let exp: Vec<usize> = a.states().filter(|s| s.is_final()).map(|s| s.id()).collect();
    let mut sorted = listed.clone();
    sorted.sort_unstable();
    if a.num_states() != n || a.num_final_states() != nf || sorted != exp || listed.len() != exp.len() {
        o.fail(class, format!("{}: num_states = {} (states() has {}), num_final_states = {} ({} states are final), final_states() = {:?}", what, a.num_states(), n, a.num_final_states(), nf, listed));
    }
    for (i, s) in a.states().enumerate() {
        if s.id() != i || a.state(i).id() != i {
            o.fail(class, format!("{}: state at position {} has id {}", what, i, s.id()));
            break;
        }
    }
}

// ---------------------------------------------------------------------------------------------
// C04
// ---------------------------------------------------------------------------------------------

pub fn run_c04(tape: &[u8], cx: &Cx) -> Outcome {
    let mut t = Tape::new(tape);
    let mut o = Outcome::default();
    let case = match gen_case(&mut t, false) {
        Ok(c) => c,
        Err(msg) => {
            if handle_build_err("C04", msg.clone(), &mut o) {
                return Outcome::discarded(&msg);
            }
            return o;
        }
    };
    o.digest = fnv(case.render.as_bytes());
    if cx.render {
        o.render = case.render.clone();
    }
    judge_minimize(&case, o)
}

/// build the case twice, minimise one copy, and judge it against the reference DFA of the language
fn judge_minimize(case: &AutoCase, mut o: Outcome) -> Outcome {
    let (a, mut b) = match (case.build(), case.build()) {
        (Ok(a), Ok(b)) => (a, b),
        (Err(m), _) | (_, Err(m)) => {
            if handle_build_err("C04", m.clone(), &mut o) {
                return Outcome::discarded(&m);
            }
            return o;
        }
    };
    let alphabet = automaton_probe_chars(&a, &case.atoms.all_reps());
    let classes_a = moore_classes(&a, &alphabet);
    let n_classes_a = classes_a.iter().collect::<BTreeSet<_>>().len();
    let reach_a = reachable_states(&a, &alphabet);
    if let Err(msg) = catch(|| b.minimize()) {
        o.fail("C04/minimize-panics", format!("minimize panicked: {}", msg));
        return o;
    }
    check_counts(&b, "after minimize", "C04/counts-inconsistent", &mut o);
    // language preserved (exact: product with the reference DFA, which is also the language of A)
    for (name, x) in [("before minimize", &a), ("after minimize", &b)] {
        match product_automaton(&case.atoms, &case.dfa, case.dfa.start, x, x.initial_state()) {
            ProductResult::Equal(p) => o.evals += p as u64,
            ProductResult::Differ { word, automaton_says, reference_says } => {
                let class = if name == "before minimize" { "C04/source-automaton-wrong" } else { "C04/language-changed" };
                o.fail(class, format!("{}: accepts({}) = {} but the language says {}", name, show_str(&word), automaton_says, reference_says));
                return o;
            }
            ProductResult::Stuck { word, msg } => {
                o.fail("C04/next-panics", format!("{}: stepping along {} panicked: {}", name, show_str(&word), msg));
                return o;
            }
        }
    }
    // no two equivalent states left
    let alphabet_b = automaton_probe_chars(&b, &case.atoms.all_reps());
    let classes_b = moore_classes(&b, &alphabet_b);
    let n_classes_b = classes_b.iter().collect::<BTreeSet<_>>().len();
    o.evals += 3;
    if n_classes_b != b.num_states() {
        o.fail("C04/equivalent-states-remain", format!("after minimize the automaton has {} states but only {} pairwise inequivalent ones", b.num_states(), n_classes_b));
        return o;
    }
    // when every state is reachable: exactly the Myhill-Nerode index
    let index = case.dfa.minimized().n();
    if reach_a.len() == a.num_states() {
        o.tag("all-states-reachable");
        if b.num_states() != index {
            o.fail("C04/not-minimal", format!("all {} states are reachable; after minimize {} states, the minimal complete DFA of the language has {}", a.num_states(), b.num_states(), index));
            return o;
        }
    } else if b.num_states() < index {
        o.fail("C04/language-changed", format!("after minimize {} states, fewer than the Myhill-Nerode index {}", b.num_states(), index));
        return o;
    }
    // minimizing again changes nothing
    let before = b.num_states();
    if let Err(msg) = catch(|| b.minimize()) {
        o.fail("C04/minimize-panics", format!("second minimize panicked: {}", msg));
        return o;
    }
    if b.num_states() != before {
        o.fail("C04/equivalent-states-remain", format!("a second minimize reduces {} states to {}", before, b.num_states()));
        return o;
    }
    // minimise + prune = the canonical minimal complete DFA: exactly index-many states, same language
    if let Err(msg) = catch(|| b.remove_unreachable_states()) {
        o.fail("C04/minimize-panics", format!("remove_unreachable_states after minimize panicked: {}", msg));
        return o;
    }
    check_counts(&b, "after minimize + remove_unreachable_states", "C04/counts-inconsistent", &mut o);
    match product_automaton(&case.atoms, &case.dfa, case.dfa.start, &b, b.initial_state()) {
        ProductResult::Equal(p) => o.evals += p as u64,
        ProductResult::Differ { word, automaton_says, reference_says } => {
            o.fail("C04/language-changed", format!("after minimize and remove_unreachable_states: accepts({}) = {} but the language says {}", show_str(&word), automaton_says, reference_says));
            return o;
        }
        ProductResult::Stuck { word, msg } => {
            o.fail("C04/next-panics", format!("after minimize and remove_unreachable_states: stepping along {} panicked: {}", show_str(&word), msg));
            return o;
        }
    }
    if b.num_states() != index {
        o.fail("C04/not-minimal", format!("after minimize and remove_unreachable_states the automaton has {} states; the minimal complete DFA of the language has {}", b.num_states(), index));
        return o;
    }
    o.nontrivial = n_classes_a < a.num_states() && n_classes_b >= 2;
    if n_classes_a < a.num_states() {
        o.tag("merges-states");
    }
    if matches!(case.source, Source::Built(..)) {
        o.tag("built");
    } else {
        o.tag("compiled");
    }
    if a.num_states() >= 6 {
        o.tag(">=6-states");
    }
    if a.num_states() >= 16 {
        o.tag(">=16-states");
    }
    o
}

// ---------------------------------------------------------------------------------------------
// C13
// ---------------------------------------------------------------------------------------------

/// verdict on one build() result against the meaning of the calls given so far; false = stop
fn judge_build(spec: &Spec, res: Result<Automaton, aws_smt_strings::errors::Error>, phase: &str, o: &mut Outcome) -> bool {
    let view = spec.view();
    let facts: BTreeMap<u32, _> = view.iter().map(|(l, v)| (*l, state_facts(v))).collect();
    let conflict = facts.values().any(|f| f.conflict);
    let incomplete = facts.values().any(|f| f.incomplete);
    let overlap = facts.values().any(|f| f.overlap);
    let useless = facts.values().any(|f| f.useless_default);
    let first_bad = |pred: &dyn Fn(&crate::spec::StateFacts) -> bool| facts.iter().find(|(_, f)| pred(f)).map(|(l, _)| *l).unwrap();
    o.evals += 1;
    match res {
        Ok(a) => {
            if incomplete {
                o.fail("C13/accepts-incomplete-state", format!("{}: build returned an automaton although state {} leaves characters without successor (no transition covers them and no default was declared)", phase, first_bad(&|f| f.incomplete)));
                return false;
            }
            if conflict {
                o.fail("C13/accepts-conflicting-transitions", format!("{}: build returned an automaton although state {} gives some character two different successors", phase, first_bad(&|f| f.conflict)));
                return false;
            }
            // the automaton implements exactly the caller's delta
            let reached = match lockstep(spec, &a) {
                WalkResult::Ok(map) => {
                    o.evals += map.len() as u64;
                    map
                }
                WalkResult::Mismatch(m) => {
                    o.fail("C13/delta-differs-from-spec", format!("{}: {}", phase, m));
                    return false;
                }
            };
            // state counts: every reachable label has its own state and no state is invented (a builder may or
            // may not keep states that are unreachable from the initial one: the property does not say)
            let labels = spec.labels();
            let nfinal = view.values().filter(|v| v.is_final).count();
            let reached_final = reached.keys().filter(|l| view[*l].is_final).count();
            if a.num_states() < reached.len() || a.num_states() > labels.len() || a.num_final_states() < reached_final || a.num_final_states() > nfinal {
                o.fail("C13/counts", format!("{}: num_states = {} (labels mentioned: {}, reachable: {}), num_final_states = {} (labels marked: {}, reachable: {})", phase, a.num_states(), labels.len(), reached.len(), a.num_final_states(), nfinal, reached_final));
                return false;
            }
            check_counts(&a, "built automaton", "C13/counts", o);
            // "for every state and every character": when the builder kept a state for every label, the
            // labels that are not reachable from the initial one must be implemented too. Which state
            // belongs to which label is not observable, so some one-to-one correspondence between the
            // remaining labels and the remaining states has to make the lock-step walk succeed.
            if a.num_states() == labels.len() && reached.len() < labels.len() {
                let rest_labels: Vec<u32> = labels.iter().copied().filter(|l| !reached.contains_key(l)).collect();
                let used: BTreeSet<usize> = reached.values().copied().collect();
                let rest_states: Vec<usize> = (0..a.num_states()).filter(|i| !used.contains(i)).collect();
                if rest_labels.len() <= 4 {
                    o.tag("unreachable-part-compared");
                    let mut perm: Vec<usize> = (0..rest_states.len()).collect();
                    let mut found = false;
                    let mut first_msg = String::new();
                    // all permutations (Heap's algorithm, at most 24)
                    let mut c = vec![0usize; perm.len()];
                    let mut try_perm = |perm: &Vec<usize>| -> bool {
                        let seeds: Vec<(u32, usize)> = rest_labels.iter().enumerate().map(|(k, &l)| (l, rest_states[perm[k]])).collect();
                        match crate::spec::lockstep_seeded(spec, &a, &seeds) {
                            WalkResult::Ok(_) => true,
                            WalkResult::Mismatch(m) => {
                                if first_msg.is_empty() {
                                    first_msg = m;
                                }
                                false
                            }
                        }
                    };
                    if try_perm(&perm) {
                        found = true;
                    } else {
                        let mut i = 0;
                        while i < perm.len() {
                            if c[i] < i {
                                if i % 2 == 0 {
                                    perm.swap(0, i);
                                } else {
                                    perm.swap(c[i], i);
                                }
                                if try_perm(&perm) {
                                    found = true;
                                    break;
                                }
                                c[i] += 1;
                                i = 0;
                            } else {
                                c[i] = 0;
                                i += 1;
                            }
                        }
                    }
                    if !found {
                        o.fail("C13/delta-differs-from-spec", format!("{}: the automaton has a state for each of the {} labels, but no correspondence between the labels {:?} (not reachable from the initial label) and the remaining states {:?} reproduces their transitions and final marks; with the identity correspondence: {}", phase, labels.len(), rest_labels, rest_states, first_msg));
                        return false;
                    }
                    if a.num_final_states() != nfinal {
                        o.fail("C13/counts", format!("{}: every label has a state but num_final_states = {} and {} labels were marked final", phase, a.num_final_states(), nfinal));
                        return false;
                    }
                }
            }
            o.tag("accepted");
        }
        Err(e) => {
            if !overlap && !incomplete && !useless {
                o.fail("C13/rejects-good-spec", format!("{}: build = Err({:?}) although the specification is complete, has pairwise disjoint labels and declares defaults only where needed", phase, e));
                return false;
            }
            o.tag("rejected");
        }
    }
    if conflict {
        o.tag("spec-conflict");
    }
    if incomplete {
        o.tag("spec-incomplete");
    }
    if overlap && !conflict {
        o.tag("spec-same-target-overlap");
    }
    if useless {
        o.tag("spec-useless-default");
    }
    if !conflict && !incomplete && !overlap && !useless {
        o.tag("spec-strictly-good");
    }
    true
}

pub fn run_c13(tape: &[u8], cx: &Cx) -> Outcome {
    let mut t = Tape::new(tape);
    let sem = gen_sem(&mut t, &GenCfg { max_landmarks: 4, max_base: 4, max_clones: 2, max_unreachable: 1 });
    let mut spec = sem_to_spec(&mut t, &sem);
    let mut muts: Vec<Mutation> = Vec::new();
    let nm = t.weighted(&[3, 5, 3]);
    for _ in 0..nm {
        let m = mutate(&mut t, &mut spec);
        if m != Mutation::None {
            muts.push(m);
        }
    }
    // a quarter of the cases: the builder is used again after build(): more calls, second build()
    let extra = if t.bool_p(64) { crate::spec::gen_extra_calls(&mut t, &spec) } else { vec![] };
    let mut o = Outcome::default();
    o.digest = fnv(format!("{:?}{:?}", spec, extra).as_bytes());
    if cx.render {
        o.render = format!("{} ; mutations {:?}", spec.render(), muts);
        if !extra.is_empty() {
            let e2 = Spec { init: spec.init, calls: extra.clone() };
            o.render.push_str(&format!(" ; build() ; then {} ; build()", e2.render().replacen(&format!("new({}); ", spec.init), "", 1)));
        }
    }
    let view = spec.view();
    let labels = spec.labels();
    let any_bad = view.values().map(state_facts).any(|f| f.conflict || f.incomplete);
    o.nontrivial = labels.len() >= 2 && (any_bad || view.values().any(|v| v.trans.len() >= 2 && v.default.is_none()));
    if extra.is_empty() {
        // half of the single builds use a state type with a lawful but colliding hash
        let weak = t.flag();
        if weak {
            o.tag("state-type-with-colliding-hash");
        }
        let built = if weak { spec.build_with(|l| crate::spec::WeakLabel(l, format!("state {}", l))) } else { spec.build() };
        let res = match built {
            Ok(r) => r,
            Err(msg) => {
                o.fail("C13/build-panics", format!("build panicked: {}", msg));
                return o;
            }
        };
        judge_build(&spec, res, "build", &mut o);
    } else {
        o.tag("two-builds");
        // when the first specification is valid, the first build is sometimes build_unchecked()
        let strictly_good = !view.values().map(state_facts).any(|f| f.conflict || f.incomplete || f.overlap || f.useless_default);
        let first_unchecked = strictly_good && t.flag();
        if first_unchecked {
            o.tag("first-build-unchecked");
        }
        let (first, second) = match spec.build_twice(&extra, first_unchecked) {
            Ok(r) => r,
            Err(msg) => {
                o.fail("C13/build-panics", format!("build panicked: {}", msg));
                return o;
            }
        };
        if !judge_build(&spec, first, "first build", &mut o) {
            return o;
        }
        // the second build must be judged against ALL calls the caller made
        let mut all = spec.calls.clone();
        all.extend(extra.iter().cloned());
        let cumulative = Spec { init: spec.init, calls: all };
        judge_build(&cumulative, second, "second build (same builder, after further calls)", &mut o);
    }
    o
}

// ---------------------------------------------------------------------------------------------
// C14
// ---------------------------------------------------------------------------------------------

/// lock-step walk of two automata from their initial states: Ok(map a-state -> b-state)
fn lockstep_automata(a: &Automaton, b: &Automaton, extra: &[u32]) -> Result<HashMap<usize, usize>, String> {
    let mut map: HashMap<usize, usize> = HashMap::new();
    let mut rev: HashMap<usize, usize> = HashMap::new();
    let mut q = VecDeque::new();
    map.insert(a.initial_state().id(), b.initial_state().id());
    rev.insert(b.initial_state().id(), a.initial_state().id());
    q.push_back(a.initial_state().id());
    while let Some(ia) = q.pop_front() {
        let ib = map[&ia];
        let (sa, sb) = (a.state(ia), b.state(ib));
        if sa.is_final() != sb.is_final() {
            return Err(format!("state {} (final = {}) corresponds to state {} (final = {})", ia, sa.is_final(), ib, sb.is_final()));
        }
        let mut chars = crate::bisim::state_probe_chars(sa, extra);
        chars.extend(crate::bisim::state_probe_chars(sb, &[]));
        chars.sort_unstable();
        chars.dedup();
        for c in chars {
            let na = a.next(sa, c).id();
            let nb = match catch(|| b.next(sb, c).id()) {
                Ok(x) => x,
                Err(m) => return Err(format!("next(state {}, {}) panicked after pruning: {}", ib, show_char(c), m)),
            };
            match map.get(&na) {
                Some(&x) => {
                    if x != nb {
                        return Err(format!("on {} state {} goes to {} but its image {} goes to {} (expected {})", show_char(c), ia, na, ib, nb, x));
                    }
                }
                None => {
                    if rev.contains_key(&nb) {
                        return Err(format!("on {} state {} goes to a new state {} but its image {} goes to the image of another state", show_char(c), ia, na, ib));
                    }
                    map.insert(na, nb);
                    rev.insert(nb, na);
                    q.push_back(na);
                }
            }
        }
    }
    Ok(map)
}

/// combined partition, representative alphabet, compiled successor table and edges of one automaton
/// must all describe the same transition structure as next(); false = a failure was recorded
fn check_views(name: &str, x: &Automaton, reps: &[u32], o: &mut Outcome) -> bool {
    let cp = x.combined_char_partition();
    let ranges: Vec<(u32, u32)> = (0..cp.len()).map(|i| cp.get(i)).collect();
    // the intervals of a partition are sorted and disjoint (checked by C11/C12): binary search
    let class_of = |c: u32| -> Option<usize> {
        let k = ranges.partition_point(|&(_, hi)| hi < c);
        if k < ranges.len() && ranges[k].0 <= c {
            Some(k)
        } else {
            None
        }
    };
    // characters of one combined class have identical successors in every state
    let probes = automaton_probe_chars(x, &reps);
    let mut by_class: BTreeMap<Option<usize>, Vec<u32>> = BTreeMap::new();
    for &c in &probes {
        by_class.entry(class_of(c)).or_default().push(c);
    }
    for (cls, chars) in &by_class {
        for s in x.states() {
            o.evals += 1;
            let first = x.next(s, chars[0]).id();
            for &c in &chars[1..] {
                if x.next(s, c).id() != first {
                    o.fail(
                        "C14/combined-class-not-uniform",
                        format!("{}: {} and {} are in the same class {:?} of combined_char_partition but state {} sends them to {} and {}", name, show_char(chars[0]), show_char(c), cls, s.id(), first, x.next(s, c).id()),
                    );
                    return false;
                }
            }
        }
    }
    // pick_alphabet: one character of every class, each class once
    let alpha = x.pick_alphabet();
    let mut hit: Vec<Option<usize>> = alpha.iter().map(|&c| if c > MAX { Some(usize::MAX) } else { class_of(c) }).collect();
    hit.sort();
    let covered: u64 = ranges.iter().map(|&(lo, hi)| (hi - lo) as u64 + 1).sum();
    let mut exp: Vec<Option<usize>> = Vec::new();
    if covered < MAX as u64 + 1 {
        exp.push(None);
    }
    exp.extend((0..ranges.len()).map(Some));
    o.evals += 1;
    if hit != exp {
        o.fail("C14/alphabet-does-not-hit-every-class-once", format!("{}: pick_alphabet() = {:x?} for classes {:x?} (complement {})", name, alpha, ranges, if covered < MAX as u64 + 1 { "non-empty" } else { "empty" }));
        return false;
    }
    // compile_successors
    let table = match catch(|| x.compile_successors()) {
        Ok(tb) => tb,
        Err(msg) => {
            o.fail("C14/compile_successors-panics", format!("{}: compile_successors panicked: {}", name, msg));
            return false;
        }
    };
    if table.alphabet_size() != alpha.len() || table.num_states() != x.num_states() {
        o.fail("C14/table-dimensions", format!("{}: table is {} x {}, automaton has {} states and alphabet {}", name, table.num_states(), table.alphabet_size(), x.num_states(), alpha.len()));
        return false;
    }
    let mut shared_base = false;
    for s in x.states() {
        for (i, &c) in alpha.iter().enumerate() {
            o.evals += 1;
            let exp = x.next(s, c).id() as u32;
            let got = match catch(|| table.eval(s.id() as u32, i as u32)) {
                Ok(g) => g,
                Err(msg) => {
                    o.fail("C14/table-eval-panics", format!("{}: eval({}, {}) panicked: {}", name, s.id(), i, msg));
                    return false;
                }
            };
            if got != exp {
                o.fail("C14/table-differs-from-next", format!("{}: compile_successors().eval({}, {}) = {} but next(state {}, {}) = {}", name, s.id(), i, got, s.id(), show_char(c), exp));
                return false;
            }
        }
        if s.has_default_successor() && s.num_successors() > 0 {
            shared_base = true;
        }
    }
    if shared_base && x.num_states() >= 3 {
        o.tag("table-with-sparse-rows");
    }
    // edges
    for s in x.states() {
        o.evals += 1;
        let edges: Vec<(ClassId, usize)> = x.edges(s).map(|(cid, st)| (cid, st.id())).collect();
        let nr = s.char_ranges().count();
        let exp_len = nr + s.has_default_successor() as usize;
        if edges.len() != exp_len {
            o.fail("C14/edges", format!("{}: state {} has {} ranges, default {:?}, but edges() yields {} items", name, s.id(), nr, s.default_successor(), edges.len()));
            return false;
        }
        let starts: Vec<u32> = s.char_ranges().map(|r| r.pick()).collect();
        for (cid, target) in &edges {
            let exp = match cid {
                ClassId::Interval(i) if *i < nr => x.next(s, starts[*i]).id(),
                ClassId::Complement if s.has_default_successor() => s.default_successor().unwrap(),
                _ => usize::MAX,
            };
            if exp != *target || x.class_next(s, *cid).id() != *target {
                o.fail("C14/edges", format!("{}: edge ({}, {}) of state {} disagrees with next/class_next", name, cid, target, s.id()));
                return false;
            }
        }
        // the default edge is the successor of every uncovered character
        if let Some(d) = s.default_successor() {
            for c in crate::bisim::state_probe_chars(s, &[]) {
                if s.class_of_char(c) == ClassId::Complement && x.next(s, c).id() != d {
                    o.fail("C14/edges", format!("{}: uncovered character {} of state {} does not go to the default successor", name, show_char(c), s.id()));
                    return false;
                }
            }
        }
    }
    true
}

pub fn run_c14(tape: &[u8], cx: &Cx) -> Outcome {
    let mut t = Tape::new(tape);
    let mut o = Outcome::default();
    let case = match gen_case(&mut t, true) {
        Ok(c) => c,
        Err(msg) => {
            if handle_build_err("C14", msg.clone(), &mut o) {
                return Outcome::discarded(&msg);
            }
            return o;
        }
    };
    o.digest = fnv(case.render.as_bytes());
    if cx.render {
        o.render = case.render.clone();
    }
    let (a, mut b) = match (case.build(), case.build()) {
        (Ok(a), Ok(b)) => (a, b),
        (Err(m), _) | (_, Err(m)) => {
            if handle_build_err("C14", m.clone(), &mut o) {
                return Outcome::discarded(&m);
            }
            return o;
        }
    };
    let reps = case.atoms.all_reps();
    let alphabet = automaton_probe_chars(&a, &reps);
    check_counts(&a, "automaton", "C14/counts-inconsistent", &mut o);

    // --- reachability pruning
    let reach = reachable_states(&a, &alphabet);
    if let Err(msg) = catch(|| b.remove_unreachable_states()) {
        o.fail("C14/remove-unreachable-panics", format!("remove_unreachable_states panicked: {}", msg));
        return o;
    }
    o.evals += 2;
    if b.num_states() != reach.len() {
        let class = if b.num_states() > reach.len() { "C14/unreachable-state-kept" } else { "C14/reachable-state-removed" };
        o.fail(class, format!("{} states are reachable from the initial state but {} remain after remove_unreachable_states", reach.len(), b.num_states()));
        return o;
    }
    check_counts(&b, "after remove_unreachable_states", "C14/counts-inconsistent", &mut o);
    match lockstep_automata(&a, &b, &reps) {
        Ok(map) => {
            if map.len() != reach.len() {
                o.fail("C14/reachable-state-removed", format!("lock-step walk visits {} states, {} are reachable", map.len(), reach.len()));
                return o;
            }
        }
        Err(m) => {
            o.fail("C14/pruning-changes-transitions", m);
            return o;
        }
    }
    match product_automaton(&case.atoms, &case.dfa, case.dfa.start, &b, b.initial_state()) {
        ProductResult::Equal(p) => o.evals += p as u64,
        ProductResult::Differ { word, .. } => {
            o.fail("C14/pruning-changes-language", format!("after remove_unreachable_states the automaton disagrees with the language on {}", show_str(&word)));
            return o;
        }
        ProductResult::Stuck { word, msg } => {
            o.fail("C14/pruning-changes-transitions", format!("stepping along {} panicked: {}", show_str(&word), msg));
            return o;
        }
    }

    // --- combined partition, alphabet, compiled successor table (on the unpruned automaton: unreachable states count too)
    for (name, x) in [("automaton", &a), ("pruned automaton", &b)] {
        if !check_views(name, x, &reps, &mut o) {
            return o;
        }
    }
    // --- sequences of pruning and minimisation on one automaton: after every step the language,
    // the bookkeeping and the compiled table must still be right
    if let Ok(mut c) = case.build() {
        let nops = 2 + t.choose(2);
        let mut did_min = false;
        let mut did_prune = false;
        let mut trace = String::new();
        for _ in 0..nops {
            let op_min = t.flag();
            // look at the automaton's derived views first (whatever they cache must be refreshed by the operation)
            if t.flag() {
                let _ = c.pick_alphabet();
                let _ = catch(|| c.compile_successors());
                let _ = c.combined_char_partition();
            }
            let r = if op_min { catch(|| c.minimize()) } else { catch(|| c.remove_unreachable_states()) };
            trace.push_str(if op_min { "minimize; " } else { "remove_unreachable_states; " });
            if let Err(msg) = r {
                o.fail("C14/operation-sequence-panics", format!("after [{}]: {}", trace, msg));
                return o;
            }
            did_min |= op_min;
            did_prune |= !op_min;
            check_counts(&c, &format!("after [{}]", trace), "C14/counts-inconsistent", &mut o);
            if !check_views(&format!("after [{}]", trace), &c, &reps, &mut o) {
                return o;
            }
            match product_automaton(&case.atoms, &case.dfa, case.dfa.start, &c, c.initial_state()) {
                ProductResult::Equal(p) => o.evals += p as u64,
                ProductResult::Differ { word, .. } => {
                    o.fail("C14/operation-sequence-changes-language", format!("after [{}] the automaton disagrees with the language on {}", trace, show_str(&word)));
                    return o;
                }
                ProductResult::Stuck { word, msg } => {
                    o.fail("C14/operation-sequence-panics", format!("after [{}]: stepping along {} panicked: {}", trace, show_str(&word), msg));
                    return o;
                }
            }
        }
        if did_min && did_prune {
            o.tag("minimize+prune-sequence");
            let index = case.dfa.minimized().n();
            let reach = reachable_states(&c, &automaton_probe_chars(&c, &reps));
            // pruning must have left only reachable states, whatever the order of the operations
            if trace.trim_end().ends_with("remove_unreachable_states;") && reach.len() != c.num_states() {
                o.fail("C14/unreachable-state-kept", format!("after [{}] {} states remain but only {} are reachable", trace, c.num_states(), reach.len()));
                return o;
            }
            if reach.len() == c.num_states() && c.num_states() != index {
                o.fail("C14/operation-sequence-changes-language", format!("after [{}] all {} states are reachable and minimised, but the minimal complete DFA has {}", trace, c.num_states(), index));
                return o;
            }
        }
    }
    let removed = a.num_states() - b.num_states();
    o.nontrivial = removed >= 1 || (a.num_states() >= 3 && a.states().filter(|s| s.has_default_successor() && s.num_successors() > 0).count() >= 2);
    if removed >= 1 {
        o.tag("unreachable-removed");
    }
    if matches!(case.source, Source::Built(..)) {
        o.tag("built");
    } else {
        o.tag("compiled");
    }
    if a.states().any(|s| !s.has_default_successor()) {
        o.tag("state-without-default");
    }
    o
}


// ---------------------------------------------------------------------------------------------
// C04 scale cases (enumerated): many states, many alphabet classes
// ---------------------------------------------------------------------------------------------

/// A "counter modulo n" automaton with every state duplicated: state i (and its clone n+i) goes on
/// character 2j (j < m) to (i+j+1) mod n — to the clone of the target when j is odd — and stays put on
/// every other character; state 0 and its clone are final. All 2n states are reachable, the minimal
/// complete DFA has exactly n states, and a word is accepted iff the sum of (j+1) over its even
/// characters 2j < 2m is 0 modulo n.
fn counter_case(n: usize, m: usize) -> Outcome {
    use aws_smt_strings::automata::AutomatonBuilder;
    use aws_smt_strings::character_sets::CharSet;
    let mut o = Outcome::default();
    let what = format!("counter automaton: {} states (each duplicated), {} labelled characters", n, m);
    let res = catch(|| {
        let mut fails: Vec<(String, String)> = Vec::new();
        let mut b: AutomatonBuilder<u32> = AutomatonBuilder::new(&0);
        for i in 0..(2 * n) {
            let real = i % n;
            for j in 0..m {
                let t = (real + j + 1) % n;
                let target = if j % 2 == 1 { n + t } else { t };
                b.add_transition(&(i as u32), &CharSet::singleton(2 * j as u32), &(target as u32));
            }
            b.set_default_successor(&(i as u32), &(i as u32));
        }
        b.mark_final(&0);
        b.mark_final(&(n as u32));
        let mut a = match b.build() {
            Ok(a) => a,
            Err(e) => {
                fails.push(("C04/good-spec-rejected".into(), format!("{}: build failed: {:?}", what, e)));
                return fails;
            }
        };
        let accepts_ref = |w: &[u32]| -> bool {
            let mut sum = 0usize;
            for &c in w {
                if c % 2 == 0 && ((c / 2) as usize) < m {
                    sum += (c / 2) as usize + 1;
                }
            }
            sum % n == 0
        };
        // sample words: deterministic, around the interesting characters (first/last labelled, just outside)
        let interesting: Vec<u32> = vec![0, 1, 2, 2 * (m as u32 - 1), 2 * m as u32, 2 * (m as u32) + 1, (2 * (n - 1)) as u32 % (2 * m as u32), 0x2FFFF, 2 * ((m as u32 - 1) / 2), 2 * (m as u32 * 3 / 4)];
        let mut words: Vec<Vec<u32>> = vec![vec![]];
        for &x in &interesting {
            words.push(vec![x]);
            for &y in &interesting {
                words.push(vec![x, y]);
                words.push(vec![x, 1, y, 0x2FFFF]);
            }
        }
        // words that are accepted: complete a prefix to 0 modulo n where possible
        for &x in &interesting {
            if x % 2 == 0 && ((x / 2) as usize) < m {
                let need = (n - ((x / 2) as usize + 1) % n) % n;
                if need >= 1 && need <= m {
                    words.push(vec![x, 2 * (need as u32 - 1)]);
                }
            }
        }
        let check_lang = |a: &aws_smt_strings::automata::Automaton, stage: &str, fails: &mut Vec<(String, String)>| {
            for w in &words {
                let got = a.accepts(&aws_smt_strings::smt_strings::SmtString::from(&w[..]));
                if got != accepts_ref(w) {
                    fails.push(("C04/language-changed".into(), format!("{} ({}): accepts({:x?}) = {}, expected {}", what, stage, w, got, accepts_ref(w))));
                    return;
                }
            }
        };
        check_lang(&a, "as built", &mut fails);
        if !fails.is_empty() {
            fails[0].0 = "C04/source-automaton-wrong".into();
            return fails;
        }
        if a.num_states() != 2 * n {
            fails.push(("C04/counts-inconsistent".into(), format!("{}: built automaton has {} states", what, a.num_states())));
        }
        a.minimize();
        check_lang(&a, "after minimize", &mut fails);
        if a.num_states() != n {
            let class = if a.num_states() < n { "C04/language-changed" } else { "C04/equivalent-states-remain" };
            fails.push((class.into(), format!("{}: after minimize {} states; the minimal complete DFA has {}", what, a.num_states(), n)));
        }
        let nf = a.states().filter(|s| s.is_final()).count();
        if a.num_final_states() != nf || nf != 1 {
            fails.push(("C04/counts-inconsistent".into(), format!("{}: after minimize num_final_states = {}, {} states are final (expected 1)", what, a.num_final_states(), nf)));
        }
        a.remove_unreachable_states();
        check_lang(&a, "after minimize and remove_unreachable_states", &mut fails);
        if a.num_states() != n {
            fails.push(("C04/language-changed".into(), format!("{}: after minimize and pruning {} states, expected {}", what, a.num_states(), n)));
        }
        fails
    });
    match res {
        Ok(fails) => {
            for (c, m) in fails.into_iter().take(2) {
                o.fail(&c, m);
            }
        }
        Err(msg) => o.fail("C04/minimize-panics", format!("{}: {}", what, msg)),
    }
    o.evals += 1000;
    o
}

/// n rejecting sinks (each defaulting to the next one, all equivalent), an initial state that goes to the
/// first sink on character 0 and to an accepting state — created last, so with the largest id — on
/// everything else; the accepting state falls into the sinks. Minimal DFA: 3 states, language = one
/// character other than 0.
fn sinks_case(n: usize) -> Outcome {
    use aws_smt_strings::automata::AutomatonBuilder;
    use aws_smt_strings::character_sets::CharSet;
    use aws_smt_strings::smt_strings::SmtString;
    let mut o = Outcome::default();
    let what = format!("initial state, {} equivalent sinks, accepting state with the largest id", n);
    let res = catch(|| {
        let mut fails: Vec<(String, String)> = Vec::new();
        let mut b: AutomatonBuilder<u32> = AutomatonBuilder::new(&0);
        for i in 1..=n {
            let next = if i == n { 1 } else { i + 1 };
            b.set_default_successor(&(i as u32), &(next as u32));
        }
        let acc = (n + 1) as u32;
        b.add_transition(&0, &CharSet::singleton(0), &1);
        b.set_default_successor(&0, &acc);
        b.set_default_successor(&acc, &(n as u32));
        b.mark_final(&acc);
        let mut a = match b.build() {
            Ok(a) => a,
            Err(e) => {
                fails.push(("C04/good-spec-rejected".into(), format!("{}: build failed: {:?}", what, e)));
                return fails;
            }
        };
        let words: Vec<(Vec<u32>, bool)> = vec![(vec![], false), (vec![0], false), (vec![5], true), (vec![0x2FFFF], true), (vec![5, 5], false), (vec![0, 5], false), (vec![1], true), (vec![1, 0], false)];
        let lang_ok = |a: &aws_smt_strings::automata::Automaton| -> Option<String> {
            for (w, exp) in &words {
                if a.accepts(&SmtString::from(&w[..])) != *exp {
                    return Some(format!("accepts({:x?}) = {}, expected {}", w, !exp, exp));
                }
            }
            None
        };
        if let Some(m) = lang_ok(&a) {
            fails.push(("C04/source-automaton-wrong".into(), format!("{} (as built): {}", what, m)));
            return fails;
        }
        a.minimize();
        if let Some(m) = lang_ok(&a) {
            fails.push(("C04/language-changed".into(), format!("{} (after minimize): {}", what, m)));
        }
        if a.num_states() != 3 {
            let class = if a.num_states() < 3 { "C04/language-changed" } else { "C04/equivalent-states-remain" };
            fails.push((class.into(), format!("{}: after minimize {} states; the minimal complete DFA has 3", what, a.num_states())));
        }
        fails
    });
    match res {
        Ok(fails) => {
            for (c, m) in fails.into_iter().take(2) {
                o.fail(&c, m);
            }
        }
        Err(msg) => o.fail("C04/minimize-panics", format!("{}: {}", what, msg)),
    }
    o.evals += 20;
    o
}

/// Two states P and Q that agree on the first m-300 labelled characters (both go to the accepting
/// state) and differ only on the last 300 (Q goes to the sink there): with m beyond 2^16 they are
/// distinguished only by alphabet classes of very high index. Minimal DFA: 5 states.
fn top_classes_case(m: usize) -> Outcome {
    use aws_smt_strings::automata::AutomatonBuilder;
    use aws_smt_strings::character_sets::CharSet;
    use aws_smt_strings::smt_strings::SmtString;
    let mut o = Outcome::default();
    let what = format!("two states that differ only on the last 300 of {} labelled characters", m);
    let res = catch(|| {
        let mut fails: Vec<(String, String)> = Vec::new();
        let (init, p, q, acc, sink) = (0u32, 1u32, 2u32, 3u32, 4u32);
        let mut b: AutomatonBuilder<u32> = AutomatonBuilder::new(&init);
        b.add_transition(&init, &CharSet::singleton(0), &p);
        b.add_transition(&init, &CharSet::singleton(2), &q);
        b.set_default_successor(&init, &sink);
        for j in 0..m {
            b.add_transition(&p, &CharSet::singleton(2 * j as u32), &acc);
            if j + 300 < m {
                b.add_transition(&q, &CharSet::singleton(2 * j as u32), &acc);
            }
        }
        b.set_default_successor(&p, &sink);
        b.set_default_successor(&q, &sink);
        b.set_default_successor(&acc, &sink);
        b.set_default_successor(&sink, &sink);
        b.mark_final(&acc);
        let mut a = match b.build() {
            Ok(a) => a,
            Err(e) => {
                fails.push(("C04/good-spec-rejected".into(), format!("{}: build failed: {:?}", what, e)));
                return fails;
            }
        };
        let top = 2 * (m as u32 - 1);
        let low = 2 * (m as u32 - 301);
        let words: Vec<(Vec<u32>, bool)> = vec![(vec![0, top], true), (vec![2, top], false), (vec![2, low], true), (vec![0, low], true), (vec![0, top + 2], false), (vec![0], false), (vec![2, top - 2], false), (vec![0, 1], false)];
        let lang_ok = |a: &aws_smt_strings::automata::Automaton| -> Option<String> {
            for (w, exp) in &words {
                if a.accepts(&SmtString::from(&w[..])) != *exp {
                    return Some(format!("accepts({:x?}) = {}, expected {}", w, !exp, exp));
                }
            }
            None
        };
        if let Some(msg) = lang_ok(&a) {
            fails.push(("C04/source-automaton-wrong".into(), format!("{} (as built): {}", what, msg)));
            return fails;
        }
        a.minimize();
        if let Some(msg) = lang_ok(&a) {
            fails.push(("C04/language-changed".into(), format!("{} (after minimize): {}", what, msg)));
        }
        if a.num_states() != 5 {
            let class = if a.num_states() < 5 { "C04/language-changed" } else { "C04/equivalent-states-remain" };
            fails.push((class.into(), format!("{}: after minimize {} states; the minimal complete DFA has 5", what, a.num_states())));
        }
        fails
    });
    match res {
        Ok(fails) => {
            for (c, msg) in fails.into_iter().take(2) {
                o.fail(&c, msg);
            }
        }
        Err(msg) => o.fail("C04/minimize-panics", format!("{}: {}", what, msg)),
    }
    o.evals += 20;
    o
}

/// "Signature used as identity" family: a 90-state automaton over 7 character classes in which two
/// states have identical rows (kind 0), or one state is a copy of another (kind 1), except for a
/// perturbation (alpha, beta) of two successor ids that sit next to each other — in one column at two
/// consecutive states (kind 0: the column is otherwise a copy of its neighbour column), or in one row
/// at two neighbouring columns (kind 1). An implementation that recognises equal columns / rows /
/// blocks by a hash or checksum instead of comparing them is wrong exactly on such near-twins, for
/// particular (alpha, beta): all pairs with one component in {-2,-1,1,2} and the other anywhere in
/// range are enumerated. Builder ids equal the indices used here (every state is first mentioned in
/// index order), so the perturbation is in terms of the ids the crate sees.
fn twin_case(kind: usize, alpha: i64, beta: i64) -> Option<Outcome> {
    use crate::spec::Call;
    let n: usize = 90;
    let atoms = Atoms::from_landmarks(vec![0x61, 0x62, 0x63, 0x64, 0x65]);
    let k = atoms.len(); // gap, a, b, c, d, e, rest
    debug_assert_eq!(k, 7);
    let p = 13usize; // (13*3+7) % 90 = 46: room for perturbations in both directions
    let mut delta: Vec<Vec<usize>> = (0..n).map(|i| vec![(i * 7 + 1) % n, (i + 1) % n, (i * 5 + 2) % n, (i * 3 + 7) % n, (i * 3 + 7) % n, (i + n / 2) % n, i]).collect();
    let fin: Vec<bool> = (0..n).map(|i| i % 7 == 0).collect();
    let shift = |x: usize, d: i64| -> Option<usize> {
        let y = x as i64 + d;
        if y < 0 || y >= n as i64 {
            None
        } else {
            Some(y as usize)
        }
    };
    let mut fin = fin;
    let what;
    if kind == 0 {
        // rows p and p+1 identical; column d = column c except at p and p+1
        delta[p + 1] = delta[p].clone();
        fin[p + 1] = fin[p];
        delta[p][4] = shift(delta[p][4], alpha)?;
        delta[p + 1][4] = shift(delta[p + 1][4], beta)?;
        what = format!("90 states; states {} and {} have identical rows and column 'd' is column 'c', except d({}) = c({}){:+} and d({}) = c({}){:+}", p, p + 1, p, p, alpha, p + 1, p + 1, beta);
    } else {
        // row 40 = row p except at the neighbouring columns c and d
        let q = 40usize;
        delta[q] = delta[p].clone();
        fin[q] = fin[p];
        delta[q][3] = shift(delta[q][3], alpha)?;
        delta[q][4] = shift(delta[q][4], beta)?;
        what = format!("90 states; row {} is row {} except on 'c' ({:+}) and 'd' ({:+})", q, p, alpha, beta);
    }
    let sem = Sem { atoms: atoms.clone(), delta, fin, n_base: n, n_clones: 0, n_unreachable: 0 };
    let mut calls: Vec<Call> = Vec::new();
    // first mention of every state in index order, through an extra (unreachable) state X = n that has one
    // transition to each of them: builder ids are then label + 1 for every label >= 1 (differences between
    // ids, which is what the perturbations are about, are those of the labels). No call is ever repeated
    // or overridden.
    let x = n as u32;
    for i in 0..n as u32 {
        calls.push(Call::Trans(x, (0x1000 + i, 0x1000 + i), i));
    }
    calls.push(Call::Default(x, x));
    for i in 0..n {
        for x in 0..k - 1 {
            calls.push(Call::Trans(i as u32, atoms.atoms[x], sem.delta[i][x] as u32));
        }
        calls.push(Call::Default(i as u32, sem.delta[i][k - 1] as u32));
        if sem.fin[i] {
            calls.push(Call::Final(i as u32));
        }
    }
    let spec = Spec { init: 0, calls };
    let case = AutoCase { atoms, dfa: sem_dfa(&sem), source: Source::Built(spec, sem), render: what };
    let mut o = judge_minimize(&case, Outcome::default());
    for f in o.fails.iter_mut() {
        f.msg = format!("{}: {}", case.render, f.msg);
    }
    Some(o)
}

/// Scale cases for pruning and the views: a chain of n states (state i goes to i+1 on 'a', everything
/// else to a sink), the last one accepting, plus `extra` unreachable states (a cycle with its own
/// accepting state). Depth-first / breadth-first / recursive traversals differ only on such shapes.
fn chain_case(n: usize, extra: usize, with_views: bool) -> Outcome {
    use aws_smt_strings::automata::AutomatonBuilder;
    use aws_smt_strings::character_sets::CharSet;
    use aws_smt_strings::smt_strings::SmtString;
    let mut o = Outcome::default();
    let what = format!("chain of {} states + sink + {} unreachable states", n, extra);
    let res = catch(|| {
        let mut fails: Vec<(String, String)> = Vec::new();
        let sink = n as u32;
        let mut b: AutomatonBuilder<u32> = AutomatonBuilder::new(&0);
        for i in 0..n as u32 {
            if i + 1 < n as u32 {
                b.add_transition(&i, &CharSet::singleton(0x61), &(i + 1));
            }
            b.set_default_successor(&i, &sink);
        }
        b.set_default_successor(&sink, &sink);
        b.mark_final(&(n as u32 - 1));
        // unreachable cycle u_0 -> u_1 -> ... -> u_0, pointing into the chain as well
        let u0 = n as u32 + 1;
        for k in 0..extra as u32 {
            let me = u0 + k;
            let next = u0 + (k + 1) % extra as u32;
            b.add_transition(&me, &CharSet::singleton(0x62), &next);
            b.set_default_successor(&me, &(k % n as u32));
        }
        if extra > 0 {
            b.mark_final(&u0);
        }
        let mut a = match b.build() {
            Ok(a) => a,
            Err(e) => {
                fails.push(("C14/good-spec-rejected".into(), format!("{}: build failed: {:?}", what, e)));
                return fails;
            }
        };
        let word = |k: usize| SmtString::from(&vec![0x61u32; k][..]);
        let lang_ok = |a: &Automaton| -> Option<String> {
            let mut probes = vec![(n - 1, true), (n, false), (0, n == 1)];
            if n >= 2 {
                probes.push((n - 2, false));
            }
            for (w, exp) in probes.into_iter().map(|(k, e)| (word(k), e)) {
                if a.accepts(&w) != exp {
                    return Some(format!("accepts(a^{}) = {}, expected {}", w.len(), !exp, exp));
                }
            }
            None
        };
        if let Some(m) = lang_ok(&a) {
            fails.push(("C14/source-automaton-wrong".into(), format!("{} (as built): {}", what, m)));
            return fails;
        }
        a.remove_unreachable_states();
        if a.num_states() != n + 1 {
            let class = if a.num_states() < n + 1 { "C14/reachable-state-removed" } else { "C14/unreachable-state-kept" };
            fails.push((class.into(), format!("{}: remove_unreachable_states leaves {} states, {} are reachable", what, a.num_states(), n + 1)));
        }
        if let Some(m) = lang_ok(&a) {
            fails.push(("C14/pruning-changes-language".into(), format!("{} (after remove_unreachable_states): {}", what, m)));
        }
        let nf = a.states().filter(|s| s.is_final()).count();
        if a.num_final_states() != nf || nf != 1 || a.final_states().count() != 1 {
            fails.push(("C14/counts-inconsistent".into(), format!("{}: after pruning num_final_states = {}, {} states are final, final_states() yields {}", what, a.num_final_states(), nf, a.final_states().count())));
        }
        if with_views && fails.is_empty() {
            let mut oo = Outcome::default();
            check_views(&what, &a, &[0x61, 0x62, 0x63, 0, MAX], &mut oo);
            for f in oo.fails {
                fails.push((f.class, f.msg));
            }
        }
        fails
    });
    match res {
        Ok(fails) => {
            for (c, m) in fails.into_iter().take(2) {
                o.fail(&c, m);
            }
        }
        Err(msg) => o.fail("C14/panics", format!("{}: {}", what, msg)),
    }
    o.evals += 10;
    o
}

/// Few states, very many character classes: state i goes on character 2j (j < m) to state (i + j) mod n
/// and on everything else to state 0; state 1 accepts. The combined partition has m intervals and a
/// complement, the compiled table 2 bytes-wide column indices no longer suffice beyond 2^16.
fn wide_alphabet_case(n: usize, m: usize) -> Outcome {
    use aws_smt_strings::automata::AutomatonBuilder;
    use aws_smt_strings::character_sets::CharSet;
    let mut o = Outcome::default();
    let what = format!("{} states with {} single-character transitions each", n, m);
    let res = catch(|| {
        let mut b: AutomatonBuilder<u32> = AutomatonBuilder::new(&0);
        for i in 0..n {
            for j in 0..m {
                b.add_transition(&(i as u32), &CharSet::singleton(2 * j as u32), &(((i + j) % n) as u32));
            }
            b.set_default_successor(&(i as u32), &0);
        }
        b.mark_final(&1);
        b.build()
    });
    match res {
        Ok(Ok(a)) => {
            if a.num_states() != n {
                o.fail("C14/counts-inconsistent", format!("{}: built automaton has {} states", what, a.num_states()));
            } else {
                check_views(&what, &a, &[0, 1, 2, 3, (2 * m) as u32 - 2, (2 * m) as u32 - 1, (2 * m) as u32, MAX], &mut o);
            }
        }
        Ok(Err(e)) => o.fail("C14/good-spec-rejected", format!("{}: build failed: {:?}", what, e)),
        Err(msg) => o.fail("C14/panics", format!("{}: {}", what, msg)),
    }
    o
}

/// C13 scale specifications: states with many transitions (sorting / searching code paths that differ by
/// size, comparators that are only partial orders on overlapping labels) and automata with many states
/// (state ids that agree modulo 64 / 256: bit sets and truncated ids), judged like every other case.
pub fn enumerate_c13(_thorough: bool, part: usize, parts: usize, sink: &mut crate::runner::EnumSink) {
    use crate::spec::Call;
    let mut specs: Vec<(Spec, String)> = Vec::new();
    // (a) one state with k single-character transitions, optionally one more label that overlaps some of
    // them with a different target, inserted at the front / middle / end, in three orders of the rest
    for &k in &[5usize, 21, 22, 40, 100] {
        for order in 0..(if k > 20 { 19 } else { 3 }) {
            for conflict in [None, Some((0usize, 2usize)), Some((k / 2, 2)), Some((k, 2)), Some((0, k / 4 + 2)), Some((k / 2, k / 4 + 2)), Some((2 * k / 3, k / 2)), Some((k, k / 4 + 2))] {
                let mut trans: Vec<Call> = (0..k).map(|j| Call::Trans(0, (2 * j as u32, 2 * j as u32), 1 + (j as u32 % 3))).collect();
                match order {
                    1 => trans.reverse(),
                    2 => {
                        // interleave the two halves
                        let (a, b) = trans.split_at(k / 2);
                        let mut v = Vec::new();
                        for i in 0..b.len() {
                            v.push(b[i].clone());
                            if i < a.len() {
                                v.push(a[i].clone());
                            }
                        }
                        trans = v;
                    }
                    0 => {}
                    _ => {
                        // deterministic shuffle number `order` (linear congruential)
                        let mut x: u64 = 0x9E37_79B9 * (order as u64 + 1) + k as u64;
                        for i in (1..trans.len()).rev() {
                            x = x.wrapping_mul(6364136223846793005).wrapping_add(1442695040888963407);
                            let j = (x >> 33) as usize % (i + 1);
                            trans.swap(i, j);
                        }
                    }
                }
                if let Some((pos, width)) = conflict {
                    // overlaps `width`+1 of the single-character labels (targets 1..3, so they differ from 4)
                    let c = (k / 3) as u32;
                    let hi = (2 * c + 2 * width as u32).min(2 * (k as u32 - 1));
                    trans.insert(pos.min(trans.len()), Call::Trans(0, (2 * c, hi), 4));
                }
                let mut calls = trans;
                calls.push(Call::Default(0, 4));
                for q in 1..=4u32 {
                    calls.push(Call::Default(q, q));
                }
                calls.push(Call::Final(2));
                let what = format!("state 0 with {} single-character transitions ({} order){}", k, if order < 3 { ["ascending", "descending", "interleaved"][order].to_string() } else { format!("shuffle #{}", order) }, match conflict {
                    Some((pos, width)) => format!(" and a conflicting label over {} of them given as call number {}", width + 1, pos),
                    None => String::new(),
                });
                specs.push((Spec { init: 0, calls }, what));
            }
        }
    }
    // (b) n states in a cycle of defaults; state 0 has no default and its labels tile the alphabet with
    // targets whose ids agree modulo 64 (and modulo 256 for the larger ones)
    for &(n, ref targets) in &[(70u32, vec![1u32, 65]), (140, vec![2, 66, 130]), (300, vec![3, 259]), (600, vec![5, 261, 517]), (70, vec![1, 2])] {
        let mut calls: Vec<Call> = Vec::new();
        // first mention in index order through an extra state X = n + 1 with one transition to every label
        // (nothing is declared twice): builder ids are label + 2
        let init = n;
        let x = n + 1;
        for i in 0..n {
            calls.push(Call::Trans(x, (0x1000 + i, 0x1000 + i), i));
        }
        calls.push(Call::Default(x, x));
        for i in 0..n {
            calls.push(Call::Default(i, (i + 1) % n));
        }
        let cuts: Vec<u32> = (0..targets.len() as u32).map(|j| j * 100).collect();
        for (j, &tg) in targets.iter().enumerate() {
            let lo = cuts[j];
            let hi = if j + 1 < targets.len() { cuts[j + 1] - 1 } else { MAX };
            calls.push(Call::Trans(init, (lo, hi), tg));
        }
        calls.push(Call::Final(targets[targets.len() - 1]));
        let what = format!("{} states in a cycle of defaults plus an initial state without default whose labels tile the alphabet with targets {:?}", n, targets);
        specs.push((Spec { init, calls }, what));
    }
    for (idx, (spec, what)) in specs.iter().enumerate() {
        if idx % parts != part {
            continue;
        }
        let mut o = Outcome::default();
        match crate::runner::on_user_stack(|| spec.build()) {
            Ok(res) => {
                judge_build(spec, res, "build", &mut o);
            }
            Err(msg) => o.fail("C13/build-panics", format!("build panicked: {}", msg)),
        }
        for f in o.fails.iter_mut() {
            f.msg = format!("{}: {}", what, f.msg);
        }
        sink.case(&o, true, || format!("scale specification: {}", what));
        if sink.failed() {
            return;
        }
    }
    // one single-character transition for every code point and no default: complete and conflict-free
    if part == parts - 1 {
        use aws_smt_strings::automata::AutomatonBuilder;
        use aws_smt_strings::character_sets::CharSet;
        let mut o = Outcome::default();
        let res = crate::runner::on_user_stack(|| {
            catch(|| {
                let mut b: AutomatonBuilder<u32> = AutomatonBuilder::new(&0);
                for c in 0..=MAX {
                    b.add_transition(&0, &CharSet::singleton(c), &(1 + c % 3));
                }
                for q in 1..=3u32 {
                    b.set_default_successor(&q, &q);
                }
                b.mark_final(&2);
                b.build().map(|a| {
                    let s0 = a.initial_state();
                    let mut bad: Option<u32> = None;
                    let mut c = 0u32;
                    while c <= MAX {
                        if a.next(a.next(s0, c), 0).is_final() != (1 + c % 3 == 2) {
                            bad = Some(c);
                            break;
                        }
                        c += if c < 70_000 { 1 } else { 101 };
                    }
                    (a.num_states(), bad)
                })
            })
        });
        match res {
            Ok(Ok((n, bad))) => {
                if n != 4 || bad.is_some() {
                    o.fail("C13/delta-differs-from-spec", format!("one transition per code point: {} states, first wrong successor at {:?}", n, bad.map(|c| format!("{:#x}", c))));
                }
            }
            Ok(Err(e)) => o.fail("C13/rejects-good-spec", format!("a state with one single-character transition for each of the 0x30000 code points (complete, conflict-free, no default) is rejected: {:?}", e)),
            Err(msg) => o.fail("C13/build-panics", format!("one transition per code point: {}", msg)),
        }
        sink.case(&o, true, || "scale specification: one transition per code point".to_string());
        sink.stats.exhaustive_spaces.push("1 scale specification: a state with a single-character transition for every one of the 196 608 code points".to_string());
    }
    if part == 0 {
        sink.stats.exhaustive_spaces.push("scale specifications: one state with 5 / 21 / 22 / 40 / 100 single-character transitions in ascending / descending / interleaved call order and 16 shuffles, without and with a conflicting wider label given first / in the middle / last; 70 - 600 states with an initial state whose successors have ids that agree modulo 64 or 256".to_string());
    }
}

pub fn enumerate_c14(_thorough: bool, part: usize, parts: usize, sink: &mut crate::runner::EnumSink) {
    // (chain length, unreachable states, also check the views); the views are quadratic in the harness
    let cases: [(usize, usize, bool); 7] = [(1, 0, true), (2, 3, true), (40, 7, true), (700, 300, true), (70_000, 66_000, false), (400_000, 5, false), (1_000_000, 5, false)];
    for (k, &(n, extra, views)) in cases.iter().enumerate() {
        if k % parts != part {
            continue;
        }
        let o = crate::runner::on_user_stack(|| chain_case(n, extra, views));
        sink.case(&o, true, || format!("scale case: chain of {} states, {} unreachable", n, extra));
    }
    for (k, &(n, m)) in [(3usize, 300usize), (5, 70_000)].iter().enumerate() {
        if (k + 1) % parts != part {
            continue;
        }
        let o = crate::runner::on_user_stack(|| wide_alphabet_case(n, m));
        sink.case(&o, true, || format!("scale case: {} states x {} labelled characters, all views", n, m));
    }
    // near-twin partitions in two states of one automaton: the second state's two intervals have the same
    // bounds as the first state's except for one flipped bit in each of two bounds (every pair of bounds,
    // every pair of bit positions): a combined partition that recognises "the same partition again" by an
    // XOR-linear signature loses the bounds of the twin
    {
        use aws_smt_strings::automata::AutomatonBuilder;
        use aws_smt_strings::character_sets::CharSet;
        let mut idx = 0usize;
        let mut n_twin = 0usize;
        for base in [[0u32, 2000, 3000, 4000], [0x10000, 0x18000, 0x20000, 0x28000], [5, 0x155, 0x2AAAA, 0x2FFF0]] {
            for p in 0..4usize {
                for q in (p + 1)..4 {
                    for i in 0..18u32 {
                        for j in 0..18u32 {
                            idx += 1;
                            if idx % parts != part {
                                continue;
                            }
                            let mut tw = base;
                            tw[p] ^= 1 << i;
                            tw[q] ^= 1 << j;
                            if !(tw[0] <= tw[1] && tw[1] < tw[2] && tw[2] <= tw[3] && tw[3] <= MAX) {
                                continue;
                            }
                            let mut o = Outcome::default();
                            let built = catch(|| {
                                let mut b: AutomatonBuilder<u32> = AutomatonBuilder::new(&0);
                                b.add_transition(&0, &CharSet::range(base[0], base[1]), &1);
                                b.add_transition(&0, &CharSet::range(base[2], base[3]), &2);
                                b.set_default_successor(&0, &3);
                                b.add_transition(&1, &CharSet::range(tw[0], tw[1]), &2);
                                b.add_transition(&1, &CharSet::range(tw[2], tw[3]), &0);
                                b.set_default_successor(&1, &3);
                                b.set_default_successor(&2, &1);
                                b.set_default_successor(&3, &3);
                                b.mark_final(&2);
                                b.build()
                            });
                            let what = format!("state 0 with intervals [{:#x},{:#x}] [{:#x},{:#x}], state 1 with [{:#x},{:#x}] [{:#x},{:#x}]", base[0], base[1], base[2], base[3], tw[0], tw[1], tw[2], tw[3]);
                            match built {
                                Ok(Ok(a)) => {
                                    let mut probes: Vec<u32> = vec![0, MAX];
                                    for &c in base.iter().chain(tw.iter()) {
                                        probes.extend([c.saturating_sub(1), c, (c + 1).min(MAX)]);
                                    }
                                    check_views(&what, &a, &probes, &mut o);
                                }
                                Ok(Err(e)) => o.fail("C14/good-spec-rejected", format!("{}: build failed: {:?}", what, e)),
                                Err(msg) => o.fail("C14/panics", format!("{}: {}", what, msg)),
                            }
                            n_twin += 1;
                            sink.case(&o, true, || format!("near-twin partitions: {}", what));
                            if sink.failed() {
                                return;
                            }
                        }
                    }
                }
            }
        }
        let _ = n_twin;
        if part == 0 {
            sink.stats.exhaustive_spaces.push("near-twin partitions in two states of one automaton: three base pairs of intervals, the second state's bounds equal to the first's except one flipped bit in each of two bounds — every pair of bounds x every pair of bit positions 0..17 (those that keep the intervals well-formed)".to_string());
        }
    }
    if part == 0 {
        sink.stats.exhaustive_spaces.push("2 wide-alphabet cases: 3 states x 300 and 5 states x 70 000 single-character transitions: combined partition, representative alphabet, every cell of the compiled successor table, edges".to_string());
        sink.stats.exhaustive_spaces.push("7 scale cases (run on an 8 MiB stack): chains of 1 / 2 / 40 / 700 / 70 000 / 400 000 / 1 000 000 states with a sink and 0 - 66 000 unreachable states (a cycle pointing into the chain): built, pruned, counts and language on fixed words; all views on the four small ones".to_string());
        sink.stats.samples.push("[enum] scale case: chain of 1000000 states + sink + 5 unreachable states".to_string());
    }
}

pub fn enumerate_c04(_thorough: bool, part: usize, parts: usize, sink: &mut crate::runner::EnumSink) {
    for (k, &m) in [400usize, 66000].iter().enumerate() {
        if (k + 2) % parts != part {
            continue;
        }
        let o = crate::runner::on_user_stack(|| top_classes_case(m));
        sink.case(&o, true, || format!("scale case: two states that differ only on the last 300 of {} labelled characters", m));
    }
    for (k, &n) in [3usize, 300, 66000].iter().enumerate() {
        if (k + 1) % parts != part {
            continue;
        }
        let o = crate::runner::on_user_stack(|| sinks_case(n));
        sink.case(&o, true, || format!("scale case: {} equivalent sinks, accepting state with the largest id", n));
    }
    // (states, labelled characters): small, beyond 2^8 in either dimension, beyond 2^16 labelled characters
    let cases: [(usize, usize); 5] = [(3, 2), (7, 5), (300, 4), (5, 300), (4, 66000)];
    for (k, &(n, m)) in cases.iter().enumerate() {
        if k % parts != part {
            continue;
        }
        let o = crate::runner::on_user_stack(|| counter_case(n, m));
        sink.case(&o, true, || format!("scale case: counter automaton modulo {} with {} labelled characters, every state duplicated", n, m));
    }
    // near-twin family
    let mut idx = 0usize;
    let mut n_twin = 0usize;
    for kind in 0..2usize {
        for small in [-2i64, -1, 1, 2] {
            for other in -46i64..=43 {
                for (alpha, beta) in [(small, other), (other, small)] {
                    idx += 1;
                    if idx % parts != part {
                        continue;
                    }
                    if let Some(o) = crate::runner::on_user_stack(|| twin_case(kind, alpha, beta)) {
                        n_twin += 1;
                        sink.case(&o, true, || format!("near-twin family kind {} perturbation ({:+},{:+})", kind, alpha, beta));
                        if sink.failed() {
                            return;
                        }
                    }
                }
            }
        }
    }
    let _ = n_twin;
    if part == 0 {
        sink.stats.exhaustive_spaces.push("near-twin family: 90-state automata with two identical rows and a column that copies its neighbour except for (alpha, beta) at two consecutive states, or a row that copies another except for (alpha, beta) at two neighbouring columns; every (alpha, beta) with one component in {-2,-1,1,2} and the other in [-46,43]".to_string());
        sink.stats.exhaustive_spaces.push("10 scale cases: two states differing only on the last 300 of 400 / 66000 labelled characters; counter automata modulo n with m labelled characters and every state duplicated, (n,m) in (3,2) (7,5) (300,4) (5,300) (4,66000), and automata with 3 / 300 / 66000 equivalent sinks and the accepting state at the largest id: built, minimised, pruned; state counts against the known Myhill-Nerode index and the language on fixed word lists".to_string());
        sink.stats.samples.push("[enum] scale case: counter automaton modulo 4 with 66000 labelled characters; 66000 equivalent sinks + accepting state with id 66001".to_string());
    }
}
