//! vcheck: executable property checks for aws-smt-strings (see /verif/DESIGN.md).
//!
//!   vcheck <ID> proptest --cases N --seed S --chunk K --out FILE [--known c1,c2] [--thorough]
//!   vcheck <ID> enum --part K --parts P --out FILE [--known ..] [--thorough]
//!   vcheck <ID> replay --out FILE [--known ..] TAPEFILE...     (each file: hex tape, '#' comments allowed)
//!   vcheck <ID> describe HEX
//!   vcheck selftest

use vcheck::runner::{self, Cx, EnumSink, Known, PtArgs, Stats};
use vcheck::{registry, tape};

fn arg_val(args: &[String], name: &str) -> Option<String> {
    args.iter().position(|a| a == name).and_then(|i| args.get(i + 1).cloned())
}

fn read_tape_file(path: &str) -> Option<Vec<u8>> {
    let text = std::fs::read_to_string(path).ok()?;
    // a replay JSON file written by ./check has a "tape":"<hex>" member; a corpus file is plain hex
    if let Some(i) = text.find("\"tape\"") {
        let rest = &text[i + 6..];
        let q1 = rest.find('"')?;
        let rest = &rest[q1 + 1..];
        let q2 = rest.find('"')?;
        return tape::unhex(&rest[..q2]);
    }
    let hex: String = text.lines().filter(|l| !l.trim_start().starts_with('#')).collect::<Vec<_>>().join("");
    tape::unhex(&hex)
}

fn real_main() -> i32 {
    let args: Vec<String> = std::env::args().skip(1).collect();
    if args.is_empty() {
        eprintln!("usage: vcheck <ID> proptest|enum|replay|describe ... | vcheck selftest");
        return 2;
    }
    runner::install_quiet_panic_hook();
    if args[0] == "selftest" {
        return selftest();
    }
    let reg = registry();
    let prop = match reg.iter().find(|p| p.id == args[0]) {
        Some(p) => p,
        None => {
            eprintln!("unknown property {}", args[0]);
            return 2;
        }
    };
    let mode = args.get(1).map(|s| s.as_str()).unwrap_or("");
    let thorough = args.iter().any(|a| a == "--thorough");
    let known = Known { classes: arg_val(&args, "--known").map(|s| s.split(',').filter(|x| !x.is_empty()).map(|x| x.to_string()).collect()).unwrap_or_default() };
    let cx = Cx { render: false, profile: runner::profile_name(), thorough };
    let out = arg_val(&args, "--out");
    let mut stats = Stats::default();
    match mode {
        "proptest" => {
            let pa = PtArgs {
                id: prop.id.to_string(),
                cases: arg_val(&args, "--cases").and_then(|s| s.parse().ok()).unwrap_or(1000),
                seed: arg_val(&args, "--seed").and_then(|s| s.parse().ok()).unwrap_or(0),
                chunk: arg_val(&args, "--chunk").and_then(|s| s.parse().ok()).unwrap_or(0),
                tape_len: arg_val(&args, "--tape-len").and_then(|s| s.parse().ok()).unwrap_or(prop.tape_len),
                samples_wanted: 2,
            };
            runner::run_proptest(prop.run, &pa, &cx, &known, &mut stats);
        }
        "enum" => {
            let part: usize = arg_val(&args, "--part").and_then(|s| s.parse().ok()).unwrap_or(0);
            let parts: usize = arg_val(&args, "--parts").and_then(|s| s.parse().ok()).unwrap_or(1);
            if let Some(e) = prop.enumerate {
                let mut sink = EnumSink { stats: &mut stats, known: &known };
                e(thorough, part, parts, &mut sink);
            }
        }
        "replay" => {
            let mut skip = false;
            for a in args.iter().skip(2) {
                if skip {
                    skip = false;
                    continue;
                }
                if a == "--out" || a == "--known" {
                    skip = true;
                    continue;
                }
                if a.starts_with("--") {
                    continue;
                }
                match read_tape_file(a) {
                    Some(t) => runner::run_replay(prop.id, prop.run, &t, &cx, &known, &mut stats, "replay"),
                    None => {
                        eprintln!("cannot read tape file {}", a);
                        return 2;
                    }
                }
            }
        }
        "describe" => {
            let t = tape::unhex(args.get(2).map(|s| s.as_str()).unwrap_or("")).unwrap_or_default();
            let rcx = Cx { render: true, profile: cx.profile, thorough };
            let o = runner::run_case(prop.id, prop.run, &t, &rcx);
            println!("{}", o.render);
            for f in &o.fails {
                println!("FAIL {}: {}", f.class, f.msg);
            }
            if let Some(d) = &o.discard {
                println!("DISCARD {}", d);
            }
            println!("nontrivial={} tags={:?} evals={}", o.nontrivial, o.tags, o.evals);
            return 0;
        }
        _ => {
            eprintln!("unknown mode {}", mode);
            return 2;
        }
    }
    let json = stats.to_json(cx.profile);
    match out {
        Some(p) => {
            if std::fs::write(&p, json).is_err() {
                eprintln!("cannot write {}", p);
                return 2;
            }
        }
        None => println!("{}", json),
    }
    if stats.violation.is_some() {
        1
    } else {
        0
    }
}

fn selftest() -> i32 {
    0
}

fn main() {
    // big stack: the crate recurses on term depth
    let child = std::thread::Builder::new().stack_size(256 << 20).spawn(real_main).unwrap();
    let code = child.join().unwrap_or(2);
    std::process::exit(code);
}
