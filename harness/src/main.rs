//! vcheck: executable property checks for aws-smt-strings (see /verif/DESIGN.md).
//!
//!   vcheck <ID> proptest --cases N --seed S --chunk K --out FILE [--known c1,c2] [--thorough]
//!   vcheck <ID> enum --part K --parts P --out FILE [--known ..] [--thorough]
//!   vcheck <ID> replay --out FILE [--known ..] TAPEFILE...     (each file: hex tape, '#' comments allowed)
//!   vcheck <ID> describe HEX
//!   vcheck selftest

mod atoms;
mod bisim;
mod ivl;
mod prog;
mod rdfa;
mod runner;
mod rx;
mod smtref;
mod spec;
mod tape;

mod p_auto;
mod p_c01;
mod p_c02;
mod p_c03;
mod p_c05;
mod p_c06;
mod p_c07;
mod p_c08;
mod p_c09;
mod p_c10;
mod p_c11;
mod p_c12;
mod p_c15;
mod p_c16;
mod p_c17;
mod p_c20;

use runner::{Cx, EnumSink, Known, PropFn, PtArgs, Stats};

pub struct Prop {
    pub id: &'static str,
    pub run: PropFn,
    pub tape_len: usize,
    pub enumerate: Option<fn(thorough: bool, part: usize, parts: usize, sink: &mut EnumSink)>,
}

fn registry() -> Vec<Prop> {
    vec![
        Prop { id: "C01", run: p_c01::run, tape_len: 150, enumerate: None },
        Prop { id: "C02", run: p_c02::run, tape_len: 150, enumerate: None },
        Prop { id: "C03", run: p_c03::run, tape_len: 150, enumerate: None },
        Prop { id: "C04", run: p_auto::run_c04, tape_len: 160, enumerate: None },
        Prop { id: "C13", run: p_auto::run_c13, tape_len: 160, enumerate: None },
        Prop { id: "C14", run: p_auto::run_c14, tape_len: 160, enumerate: None },
        Prop { id: "C05", run: p_c05::run_c05, tape_len: 120, enumerate: None },
        Prop { id: "C18", run: p_c05::run_c18, tape_len: 120, enumerate: None },
        Prop { id: "C19", run: p_c05::run_c19, tape_len: 120, enumerate: None },
        Prop { id: "C06", run: p_c06::run, tape_len: 64, enumerate: Some(p_c06::enumerate) },
        Prop { id: "C07", run: p_c07::run, tape_len: 200, enumerate: None },
        Prop { id: "C08", run: p_c08::run, tape_len: 96, enumerate: Some(p_c08::enumerate) },
        Prop { id: "C09", run: p_c09::run, tape_len: 96, enumerate: Some(p_c09::enumerate) },
        Prop { id: "C16", run: p_c16::run, tape_len: 160, enumerate: None },
        Prop { id: "C17", run: p_c17::run, tape_len: 128, enumerate: None },
        Prop { id: "C10", run: p_c10::run, tape_len: 120, enumerate: None },
        Prop { id: "C11", run: p_c11::run, tape_len: 96, enumerate: Some(|th, part, parts, sink| p_c11::enumerate(if th { 5 } else { 4 }, part, parts, sink)) },
        Prop { id: "C12", run: p_c12::run, tape_len: 128, enumerate: Some(|th, part, parts, sink| if th { p_c12::enumerate(4, 2, part, parts, sink) } else { p_c12::enumerate(3, 2, part, parts, sink) }) },
        Prop { id: "C15", run: p_c15::run, tape_len: 64, enumerate: Some(|th, part, parts, sink| p_c15::enumerate(if th { 40 } else { 24 }, part, parts, sink)) },
        Prop {
        id: "C20",
        run: p_c20::run,
        tape_len: 64,
        enumerate: Some(|th, part, parts, sink| p_c20::enumerate(if th { 8 } else { 5 }, part, parts, sink)),
    }]
    .into_iter()
    .collect()
}

fn arg_val(args: &[String], name: &str) -> Option<String> {
    args.iter().position(|a| a == name).and_then(|i| args.get(i + 1).cloned())
}

fn read_tape_file(path: &str) -> Option<Vec<u8>> {
    let text = std::fs::read_to_string(path).ok()?;
    // a replay JSON file written by ./check has a "tape":"<hex>" member; a corpus file is plain hex
    if let Some(i) = text.find("\"tape\"") {
        let rest = &text[i + 6..];
        let q1 = rest.find('"')?;
        let rest = &rest[q1 + 1..];
        let q2 = rest.find('"')?;
        return tape::unhex(&rest[..q2]);
    }
    let hex: String = text.lines().filter(|l| !l.trim_start().starts_with('#')).collect::<Vec<_>>().join("");
    tape::unhex(&hex)
}

fn real_main() -> i32 {
    let args: Vec<String> = std::env::args().skip(1).collect();
    if args.is_empty() {
        eprintln!("usage: vcheck <ID> proptest|enum|replay|describe ... | vcheck selftest");
        return 2;
    }
    runner::install_quiet_panic_hook();
    if args[0] == "selftest" {
        return selftest();
    }
    let reg = registry();
    let prop = match reg.iter().find(|p| p.id == args[0]) {
        Some(p) => p,
        None => {
            eprintln!("unknown property {}", args[0]);
            return 2;
        }
    };
    let mode = args.get(1).map(|s| s.as_str()).unwrap_or("");
    let thorough = args.iter().any(|a| a == "--thorough");
    let known = Known { classes: arg_val(&args, "--known").map(|s| s.split(',').filter(|x| !x.is_empty()).map(|x| x.to_string()).collect()).unwrap_or_default() };
    let cx = Cx { render: false, profile: runner::profile_name(), thorough };
    let out = arg_val(&args, "--out");
    let mut stats = Stats::default();
    match mode {
        "proptest" => {
            let pa = PtArgs {
                id: prop.id.to_string(),
                cases: arg_val(&args, "--cases").and_then(|s| s.parse().ok()).unwrap_or(1000),
                seed: arg_val(&args, "--seed").and_then(|s| s.parse().ok()).unwrap_or(0),
                chunk: arg_val(&args, "--chunk").and_then(|s| s.parse().ok()).unwrap_or(0),
                tape_len: arg_val(&args, "--tape-len").and_then(|s| s.parse().ok()).unwrap_or(prop.tape_len),
                samples_wanted: 2,
            };
            runner::run_proptest(prop.run, &pa, &cx, &known, &mut stats);
        }
        "enum" => {
            let part: usize = arg_val(&args, "--part").and_then(|s| s.parse().ok()).unwrap_or(0);
            let parts: usize = arg_val(&args, "--parts").and_then(|s| s.parse().ok()).unwrap_or(1);
            if let Some(e) = prop.enumerate {
                let mut sink = EnumSink { stats: &mut stats, known: &known };
                e(thorough, part, parts, &mut sink);
            }
        }
        "replay" => {
            let mut skip = false;
            for a in args.iter().skip(2) {
                if skip {
                    skip = false;
                    continue;
                }
                if a == "--out" || a == "--known" {
                    skip = true;
                    continue;
                }
                if a.starts_with("--") {
                    continue;
                }
                match read_tape_file(a) {
                    Some(t) => runner::run_replay(prop.id, prop.run, &t, &cx, &known, &mut stats, "replay"),
                    None => {
                        eprintln!("cannot read tape file {}", a);
                        return 2;
                    }
                }
            }
        }
        "describe" => {
            let t = tape::unhex(args.get(2).map(|s| s.as_str()).unwrap_or("")).unwrap_or_default();
            let rcx = Cx { render: true, profile: cx.profile, thorough };
            let o = runner::run_case(prop.id, prop.run, &t, &rcx);
            println!("{}", o.render);
            for f in &o.fails {
                println!("FAIL {}: {}", f.class, f.msg);
            }
            if let Some(d) = &o.discard {
                println!("DISCARD {}", d);
            }
            println!("nontrivial={} tags={:?} evals={}", o.nontrivial, o.tags, o.evals);
            return 0;
        }
        _ => {
            eprintln!("unknown mode {}", mode);
            return 2;
        }
    }
    let json = stats.to_json(cx.profile);
    match out {
        Some(p) => {
            if std::fs::write(&p, json).is_err() {
                eprintln!("cannot write {}", p);
                return 2;
            }
        }
        None => println!("{}", json),
    }
    if stats.violation.is_some() {
        1
    } else {
        0
    }
}

fn selftest() -> i32 {
    0
}

fn main() {
    // big stack: the crate recurses on term depth
    let child = std::thread::Builder::new().stack_size(256 << 20).spawn(real_main).unwrap();
    let code = child.join().unwrap_or(2);
    std::process::exit(code);
}
