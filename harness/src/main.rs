//! vcheck: executable property checks for aws-smt-strings (see /verif/DESIGN.md).
//!
//!   vcheck <ID> proptest --cases N --seed S --chunk K --out FILE [--known c1,c2] [--thorough]
//!   vcheck <ID> enum --part K --parts P --out FILE [--known ..] [--thorough]
//!   vcheck <ID> replay --out FILE [--known ..] TAPEFILE...     (each file: hex tape, '#' comments allowed)
//!   vcheck <ID> describe HEX
//!   vcheck selftest

use vcheck::runner::{self, Cx, EnumSink, Known, PtArgs, Stats};
use vcheck::{registry, tape};

fn arg_val(args: &[String], name: &str) -> Option<String> {
    args.iter().position(|a| a == name).and_then(|i| args.get(i + 1).cloned())
}

fn read_tape_file(path: &str) -> Option<Vec<u8>> {
    let text = std::fs::read_to_string(path).ok()?;
    // a replay JSON file written by ./check has a "tape":"<hex>" member; a corpus file is plain hex
    if let Some(i) = text.find("\"tape\"") {
        let rest = &text[i + 6..];
        let q1 = rest.find('"')?;
        let rest = &rest[q1 + 1..];
        let q2 = rest.find('"')?;
        return tape::unhex(&rest[..q2]);
    }
    let hex: String = text.lines().filter(|l| !l.trim_start().starts_with('#')).collect::<Vec<_>>().join("");
    tape::unhex(&hex)
}

fn real_main() -> i32 {
    let args: Vec<String> = std::env::args().skip(1).collect();
    if args.is_empty() {
        eprintln!("usage: vcheck <ID> proptest|enum|replay|describe ... | vcheck selftest");
        return 2;
    }
    runner::install_quiet_panic_hook();
    if args[0] == "selftest" {
        return selftest();
    }
    let reg = registry();
    let prop = match reg.iter().find(|p| p.id == args[0]) {
        Some(p) => p,
        None => {
            eprintln!("unknown property {}", args[0]);
            return 2;
        }
    };
    let mode = args.get(1).map(|s| s.as_str()).unwrap_or("");
    let thorough = args.iter().any(|a| a == "--thorough");
    let known = Known { classes: arg_val(&args, "--known").map(|s| s.split(',').filter(|x| !x.is_empty()).map(|x| x.to_string()).collect()).unwrap_or_default() };
    let cx = Cx { render: false, profile: runner::profile_name(), thorough };
    let out = arg_val(&args, "--out");
    let mut stats = Stats::default();
    match mode {
        "proptest" => {
            let pa = PtArgs {
                id: prop.id.to_string(),
                cases: arg_val(&args, "--cases").and_then(|s| s.parse().ok()).unwrap_or(1000),
                seed: arg_val(&args, "--seed").and_then(|s| s.parse().ok()).unwrap_or(0),
                chunk: arg_val(&args, "--chunk").and_then(|s| s.parse().ok()).unwrap_or(0),
                tape_len: arg_val(&args, "--tape-len").and_then(|s| s.parse().ok()).unwrap_or(prop.tape_len),
                samples_wanted: 2,
            };
            runner::run_proptest(prop.run, &pa, &cx, &known, &mut stats);
        }
        "enum" => {
            let part: usize = arg_val(&args, "--part").and_then(|s| s.parse().ok()).unwrap_or(0);
            let parts: usize = arg_val(&args, "--parts").and_then(|s| s.parse().ok()).unwrap_or(1);
            if let Some(e) = prop.enumerate {
                // a panic that escapes an enumerated check is a failure of the crate under test (the
                // enumerators only build inputs inside the documented domains), not an infrastructure problem
                let r = runner::catch(|| {
                    let mut sink = EnumSink { stats: &mut stats, known: &known };
                    e(thorough, part, parts, &mut sink);
                });
                if let Err(msg) = r {
                    let site = msg.rsplit(" @ ").next().unwrap_or("").to_string();
                    let short = site.rsplit('/').next().unwrap_or("").split(':').next().unwrap_or("").to_string();
                    let class = format!("{}/panic/{}", prop.id, short);
                    if known.is_known(&class) {
                        let e = stats.known_hits.entry(class).or_insert((0, msg.clone()));
                        e.0 += 1;
                    } else if stats.violation.is_none() {
                        stats.violation = Some(runner::Violation {
                            class,
                            msg: format!("unexpected panic during the exhaustive enumeration: {}", msg),
                            tape: vec![],
                            case: format!("enumeration part {} of {} (the enumeration is deterministic: re-run the check to reproduce)", part, parts),
                            engine: "enum".into(),
                        });
                    }
                }
            }
        }
        "replay" => {
            let mut skip = false;
            for a in args.iter().skip(2) {
                if skip {
                    skip = false;
                    continue;
                }
                if a == "--out" || a == "--known" {
                    skip = true;
                    continue;
                }
                if a.starts_with("--") {
                    continue;
                }
                match read_tape_file(a) {
                    Some(t) => runner::run_replay(prop.id, prop.run, &t, &cx, &known, &mut stats, "replay"),
                    None => {
                        eprintln!("cannot read tape file {}", a);
                        return 2;
                    }
                }
            }
        }
        "describe" => {
            let t = tape::unhex(args.get(2).map(|s| s.as_str()).unwrap_or("")).unwrap_or_default();
            let rcx = Cx { render: true, profile: cx.profile, thorough };
            let o = runner::run_case(prop.id, prop.run, &t, &rcx);
            println!("{}", o.render);
            for f in &o.fails {
                println!("FAIL {}: {}", f.class, f.msg);
            }
            if let Some(d) = &o.discard {
                println!("DISCARD {}", d);
            }
            println!("nontrivial={} tags={:?} evals={}", o.nontrivial, o.tags, o.evals);
            return 0;
        }
        _ => {
            eprintln!("unknown mode {}", mode);
            return 2;
        }
    }
    let json = stats.to_json(cx.profile);
    match out {
        Some(p) => {
            if std::fs::write(&p, json).is_err() {
                eprintln!("cannot write {}", p);
                return 2;
            }
        }
        None => println!("{}", json),
    }
    if stats.violation.is_some() {
        1
    } else {
        0
    }
}

/// Oracle cross-checks: an oracle bug must show up here, as an oracle bug, not as a crate alarm.
///  (1) R3 (DP matcher) against R4 (reference DFA) on generated programs and strings;
///  (2) R8 (literal scanner) against its second, table-style formulation on all short texts;
///  (3) R6 (segment masks) against per-character evaluation near 0.
fn selftest() -> i32 {
    use proptest::collection::vec as pvec;
    use proptest::prelude::*;
    use proptest::test_runner::{Config, RngSeed, TestRunner};
    use vcheck::prog::{Prog, ProgCfg};
    use vcheck::tape::Tape;
    let mut config = Config::default();
    config.cases = 30000;
    config.failure_persistence = None;
    config.rng_seed = RngSeed::Fixed(std::env::var("VERIF_SEED").ok().and_then(|s| s.parse().ok()).unwrap_or(0));
    let mut runner = TestRunner::new(config);
    let compared = std::cell::Cell::new(0u64);
    let r = runner.run(&pvec(any::<u8>(), 0..=160), |tape| {
        let (ta, tb) = tape.split_at(tape.len() / 3);
        let mut t = Tape::new(ta);
        let mut tp = Tape::new(tb);
        let prog = Prog::decode(&mut tp, &ProgCfg { big_p: 0, ..ProgCfg::default() });
        let dfas = match prog.dfas() {
            Ok(d) => d,
            Err(_) => return Ok(()),
        };
        let strings = vcheck::rx::sample_strings(&mut t, &prog.atoms, Some(dfas.last().unwrap()), 5, 9);
        for w in &strings {
            let dp = prog.dp(w);
            let wa = prog.word_atoms(w);
            for slot in 0..prog.ins.len() {
                compared.set(compared.get() + 1);
                if dp[slot].get(0, w.len()) != dfas[slot].accepts(&wa) {
                    return Err(proptest::test_runner::TestCaseError::fail(format!("R3 and R4 disagree on slot {} of {} for {:x?}", slot, prog.render(), w)));
                }
            }
        }
        Ok(())
    });
    if let Err(e) = r {
        println!("SELFTEST FAILED (R3 vs R4): {}", e);
        return 1;
    }
    println!("selftest: R3 (DP matcher) == R4 (reference DFA) on {} (slot, string) pairs", compared.get());
    // (2) literal grammar
    let alpha: [u32; 10] = [0x5C, 0x75, 0x7B, 0x7D, 0x30, 0x32, 0x33, 0x66, 0x41, 0x67];
    let mut n = 0u64;
    for len in 0..=7usize {
        let total = alpha.len().pow(len as u32);
        for idx in 0..total {
            let mut w = Vec::with_capacity(len);
            let mut x = idx;
            for _ in 0..len {
                w.push(alpha[x % alpha.len()]);
                x /= alpha.len();
            }
            n += 1;
            if vcheck::smtref::parse_literal(&w) != vcheck::smtref::parse_literal_alt(&w) {
                println!("SELFTEST FAILED (R8): the two formulations disagree on {:x?}", w);
                return 1;
            }
        }
    }
    // long escapes
    for v in [0u32, 1, 0xF, 0x10, 0xFFF, 0x1000, 0xFFFF, 0x10000, 0x2FFFF, 0x30000, 0xFFFFF, 0x100000] {
        for form in [format!("\\u{{{:x}}}", v), format!("\\u{{{:05x}}}", v), format!("\\u{{{:06x}}}", v), format!("\\u{:04x}", v & 0xFFFF), format!("x\\u{{{:x}", v)] {
            let w: Vec<u32> = form.chars().map(|c| c as u32).collect();
            n += 1;
            if vcheck::smtref::parse_literal(&w) != vcheck::smtref::parse_literal_alt(&w) {
                println!("SELFTEST FAILED (R8): the two formulations disagree on {:?}", form);
                return 1;
            }
        }
    }
    println!("selftest: R8 scanner == second formulation on {} texts", n);
    // (3) segment masks vs per-character evaluation on [0, 40]
    let mut m = 0u64;
    for a in 0..12u32 {
        for b in a..12 {
            for c in 0..12u32 {
                for d in c..12 {
                    let u = vcheck::ivl::Universe::from_intervals(&[(a * 3, b * 3 + 1), (c * 3 + 1, d * 3 + 2)]);
                    let m1 = u.mask(a * 3, b * 3 + 1);
                    let m2 = u.mask(c * 3 + 1, d * 3 + 2);
                    let card = (0..=40u32).filter(|&x| a * 3 <= x && x <= b * 3 + 1 && c * 3 + 1 <= x && x <= d * 3 + 2).count() as u64;
                    m += 1;
                    if u.card(m1 & m2) != card {
                        println!("SELFTEST FAILED (R6): intersection cardinality wrong");
                        return 1;
                    }
                }
            }
        }
    }
    println!("selftest: R6 masks == per-character evaluation on {} interval pairs", m);
    0
}

fn main() {
    // big stack: the crate recurses on term depth
    let child = std::thread::Builder::new().stack_size(256 << 20).spawn(real_main).unwrap();
    let code = child.join().unwrap_or(2);
    std::process::exit(code);
}
