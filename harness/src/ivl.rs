//! R6: interval algebra by representatives.
//!
//! A `Universe` cuts [0, MAX] into segments at the end points of all intervals of a case; every
//! interval of the case is then a union of segments and set-theoretic truth is brute force on
//! bit masks (one bit per segment), with true cardinalities from the segment widths.

use crate::atoms::MAX;

#[derive(Clone, Debug)]
pub struct Universe {
    pub segs: Vec<(u32, u32)>,
}

impl Universe {
    /// segments induced by the given closed intervals
    pub fn from_intervals(ivs: &[(u32, u32)]) -> Universe {
        let mut cuts: Vec<u32> = vec![0];
        for &(a, b) in ivs {
            debug_assert!(a <= b && b <= MAX);
            cuts.push(a);
            if b < MAX {
                cuts.push(b + 1);
            }
        }
        cuts.sort_unstable();
        cuts.dedup();
        let mut segs = Vec::with_capacity(cuts.len());
        for i in 0..cuts.len() {
            let lo = cuts[i];
            let hi = if i + 1 < cuts.len() { cuts[i + 1] - 1 } else { MAX };
            segs.push((lo, hi));
        }
        assert!(segs.len() <= 128, "universe too large");
        Universe { segs }
    }

    /// the fixed small-scope universe: [0,n) u {middle block} u (MAX-n, MAX]
    pub fn small_scope(n: u32) -> Universe {
        let mut segs = Vec::new();
        for c in 0..n {
            segs.push((c, c));
        }
        segs.push((n, MAX - n));
        for c in (MAX - n + 1)..=MAX {
            segs.push((c, c));
        }
        Universe { segs }
    }

    pub fn len(&self) -> usize {
        self.segs.len()
    }

    /// closed interval spanning segments i..=j
    pub fn span(&self, i: usize, j: usize) -> (u32, u32) {
        (self.segs[i].0, self.segs[j].1)
    }

    /// all intervals that are unions of consecutive segments
    pub fn all_intervals(&self) -> Vec<(u32, u32)> {
        let n = self.len();
        let mut v = Vec::new();
        for i in 0..n {
            for j in i..n {
                v.push(self.span(i, j));
            }
        }
        v
    }

    pub fn mask(&self, a: u32, b: u32) -> u128 {
        let mut m = 0u128;
        for (i, &(x, y)) in self.segs.iter().enumerate() {
            if a <= x && y <= b {
                m |= 1 << i;
            } else {
                assert!(y < a || x > b, "interval [{a:#x},{b:#x}] cuts segment [{x:#x},{y:#x}]");
            }
        }
        m
    }

    pub fn full_mask(&self) -> u128 {
        if self.len() == 128 {
            u128::MAX
        } else {
            (1u128 << self.len()) - 1
        }
    }

    pub fn card(&self, m: u128) -> u64 {
        let mut c = 0u64;
        for (i, &(x, y)) in self.segs.iter().enumerate() {
            if m & (1 << i) != 0 {
                c += (y - x) as u64 + 1;
            }
        }
        c
    }

    pub fn seg_of(&self, c: u32) -> usize {
        for (i, &(x, y)) in self.segs.iter().enumerate() {
            if x <= c && c <= y {
                return i;
            }
        }
        panic!("char outside alphabet");
    }

    /// is the mask a non-empty run of consecutive segments?
    pub fn is_interval(&self, m: u128) -> bool {
        if m == 0 {
            return false;
        }
        let lo = m.trailing_zeros();
        let hi = 127 - m.leading_zeros();
        let width = hi - lo + 1;
        let run = if width == 128 { u128::MAX } else { ((1u128 << width) - 1) << lo };
        m == run
    }

    /// concrete characters to probe: both ends and an interior point of every segment
    pub fn probe_chars(&self) -> Vec<u32> {
        let mut v = Vec::new();
        for &(x, y) in &self.segs {
            v.push(x);
            if y > x {
                v.push(y);
            }
            if y > x + 1 {
                v.push(x + (y - x) / 2);
            }
        }
        v
    }

    /// least character of the mask
    pub fn min_char(&self, m: u128) -> Option<u32> {
        if m == 0 {
            None
        } else {
            Some(self.segs[m.trailing_zeros() as usize].0)
        }
    }
    pub fn max_char(&self, m: u128) -> Option<u32> {
        if m == 0 {
            None
        } else {
            Some(self.segs[127 - m.leading_zeros() as usize].1)
        }
    }
}

/// all sets of pairwise disjoint intervals over the universe (every "partition" in the crate's sense),
/// each as a sorted list; `max_intervals` bounds the number of intervals
pub fn all_partitions(u: &Universe, max_intervals: usize) -> Vec<Vec<(u32, u32)>> {
    fn rec(u: &Universe, from: usize, cur: &mut Vec<(u32, u32)>, out: &mut Vec<Vec<(u32, u32)>>, max_intervals: usize) {
        out.push(cur.clone());
        if cur.len() >= max_intervals {
            return;
        }
        let n = u.len();
        for i in from..n {
            for j in i..n {
                cur.push(u.span(i, j));
                rec(u, j + 1, cur, out, max_intervals);
                cur.pop();
            }
        }
    }
    let mut out = Vec::new();
    rec(u, 0, &mut Vec::new(), &mut out, max_intervals);
    out
}
