//! C08 — string literals: parsing follows SMT-LIB escapes; printing round-trips. Oracle R8.

use crate::atoms::show_str;
use crate::runner::{Cx, EnumSink, Outcome};
use crate::smtref as r8;
use crate::tape::{fnv, Tape};
use aws_smt_strings::smt_strings::*;

fn to_text(cp: &[u32]) -> String {
    cp.iter().map(|&c| char::from_u32(c).expect("text code point must be a Rust char")).collect()
}

fn show_text(cp: &[u32]) -> String {
    // readable: printable ASCII as is, others as <hex>
    let mut s = String::from("`");
    for &c in cp {
        if (0x20..0x7F).contains(&c) && c != b'`' as u32 {
            s.push(char::from_u32(c).unwrap());
        } else {
            s.push_str(&format!("<{:x}>", c));
        }
    }
    s.push('`');
    s
}

/// parse direction: parse_smt_literal(text) == R8(text)
pub fn check_parse(text: &[u32], o: &mut Outcome) {
    o.evals += 1;
    let got = parse_smt_literal(&to_text(text));
    let exp = r8::parse_literal(text);
    if got.as_ref() != &exp[..] {
        o.fail("C08/parse", format!("parse_smt_literal({}) = {}, expected {}", show_text(text), show_str(got.as_ref()), show_str(&exp)));
    }
}

/// print direction: printable ASCII only, quotes doubled, body reads back to the original
pub fn check_print(s: &[u32], o: &mut Outcome) {
    let cs = SmtString::from(s);
    check_printed(s, cs.to_string(), o);
    // Display into a sink that refuses further text at some point: the error must surface; if fmt reports
    // success, everything must have been written
    if s.len() <= 4 && o.fails.is_empty() {
        use std::fmt::Write as _;
        struct Bounded {
            buf: String,
            cap: usize,
        }
        impl std::fmt::Write for Bounded {
            fn write_str(&mut self, x: &str) -> std::fmt::Result {
                if self.buf.len() + x.len() > self.cap {
                    return Err(std::fmt::Error);
                }
                self.buf.push_str(x);
                Ok(())
            }
        }
        let full = cs.to_string();
        for cap in [0usize, 1, 2, 3, 5, 8, full.len().saturating_sub(1), full.len()] {
            o.evals += 1;
            let mut sink = Bounded { buf: String::new(), cap };
            let r = write!(sink, "{}", cs);
            if r.is_ok() && sink.buf != full {
                o.fail("C08/print/sink-error-swallowed", format!("Display of {} into a writer that accepts only {} bytes reports success after writing {:?} (the complete form is {:?})", show_str(s), cap, sink.buf, full));
                break;
            }
        }
    }
    // the same Display implementation reached through format specifications with a width: the
    // literal may be padded as a whole (spaces outside the quotes are trimmed here) but what is
    // between the quotes must still denote the string. (No precision: truncation on request is
    // Rust's documented meaning of a precision on text.)
    if s.len() <= 3 && o.fails.is_empty() {
        for padded in [format!("{:7}", cs), format!("{:>9}", cs), format!("{:^3}", cs)] {
            let trimmed = padded.trim_matches(' ').to_string();
            let before = o.fails.len();
            check_printed(s, trimmed, o);
            if o.fails.len() > before {
                let f = o.fails.last_mut().unwrap();
                f.msg = format!("through a format specification with a width ({:?}): {}", padded, f.msg);
            }
        }
    }
}

fn check_printed(s: &[u32], printed: String, o: &mut Outcome) {
    o.evals += 1;
    let chars: Vec<u32> = printed.chars().map(|c| c as u32).collect();
    if chars.len() < 2 || chars[0] != 0x22 || chars[chars.len() - 1] != 0x22 {
        o.fail("C08/print/not-quoted", format!("Display of {} = {:?} is not enclosed in double quotes", show_str(s), printed));
        return;
    }
    let body = &chars[1..chars.len() - 1];
    if let Some(&bad) = body.iter().find(|&&c| !(0x20..=0x7E).contains(&c)) {
        o.fail("C08/print/not-printable-ascii", format!("Display of {} = {:?} contains {:#x}", show_str(s), printed, bad));
        return;
    }
    // every double quote of the body must be doubled: undouble left to right
    let mut undoubled: Vec<u32> = Vec::with_capacity(body.len());
    let mut i = 0;
    while i < body.len() {
        if body[i] == 0x22 {
            if i + 1 < body.len() && body[i + 1] == 0x22 {
                undoubled.push(0x22);
                i += 2;
            } else {
                o.fail("C08/print/quote-not-doubled", format!("Display of {} = {:?} has a lone double quote", show_str(s), printed));
                return;
            }
        } else {
            undoubled.push(body[i]);
            i += 1;
        }
    }
    let back = parse_smt_literal(&to_text(&undoubled));
    if back.as_ref() != s {
        let class = if s.contains(&0x5C) { "C08/print/backslash-not-escaped" } else { "C08/print/roundtrip" };
        o.fail(class, format!("Display of {} = {} reads back as {}", show_str(s), printed, show_str(back.as_ref())));
    }
    // and by the reference reader as well (so that two wrongs in the crate cannot cancel out)
    let back2 = r8::parse_literal(&undoubled);
    if back2 != s {
        let class = if s.contains(&0x5C) { "C08/print/backslash-not-escaped" } else { "C08/print/roundtrip" };
        o.fail(class, format!("Display of {} = {} denotes {} by the SMT-LIB grammar", show_str(s), printed, show_str(&back2)));
    }
}

/// The two per-character printers (`char_to_smt`, `smt_char_as_string`: "convert an SMT character to a
/// string literal" / "to a string in the SMT syntax") are the same escaping rules applied to one code
/// point; they are judged like the Display form — printable ASCII only, and the text denotes the
/// one-character string [x] by the crate's reader and by the reference reader — not by their spelling.
pub fn check_char_printers(x: u32, o: &mut Outcome) {
    for (name, text) in [("char_to_smt", char_to_smt(x)), ("smt_char_as_string", smt_char_as_string(x))] {
        o.evals += 1;
        let cps: Vec<u32> = text.chars().map(|c| c as u32).collect();
        if let Some(&bad) = cps.iter().find(|&&c| !(0x20..0x7F).contains(&c)) {
            o.fail("C08/char-printer/not-printable-ascii", format!("{}({:#x}) = {:?} contains {:#x}", name, x, text, bad));
            continue;
        }
        let undoubled: Vec<u32> = if x == 0x22 {
            if cps != [0x22, 0x22] {
                o.fail("C08/char-printer/quote-not-doubled", format!("{}({:#x}) = {:?}", name, x, text));
                continue;
            }
            vec![0x22]
        } else {
            if cps.contains(&0x22) {
                o.fail("C08/char-printer/quote-not-doubled", format!("{}({:#x}) = {:?} contains a double quote", name, x, text));
                continue;
            }
            cps.clone()
        };
        let back = parse_smt_literal(&to_text(&undoubled));
        let back2 = r8::parse_literal(&undoubled);
        if back.as_ref() != [x] || back2 != [x] {
            o.fail("C08/char-printer/roundtrip", format!("{}({:#x}) = {:?} reads back as {} (reference reader: {})", name, x, text, show_str(back.as_ref()), show_str(&back2)));
        }
    }
}

/// complete escapes whose characters are replaced one at a time by every non-ASCII code point
const ROLE_TEMPLATES: &[&[u32]] = &[&[0x5C, 0x75, 0x30, 0x30, 0x34, 0x31], &[0x5C, 0x75, 0x7B, 0x34, 0x31, 0x7D]];

const TOKENS: &[&[u32]] = &[
    &[0x5C],
    &[0x75],
    &[0x7B],
    &[0x7D],
    &[0x5C, 0x75],
    &[0x5C, 0x75, 0x7B],
    &[0x30],
    &[0x32],
    &[0x33],
    &[0x66],
    &[0x46],
    &[0x41],
    &[0x61],
    &[0x67],
    &[0x47],
    &[0x22],
    &[0x20],
    &[0x0],
    &[0x7F],
    &[0x80],
    &[0xFFFF],
    &[0x10000],
    &[0x2FFFF],
    &[0xE9],
    &[0x39, 0x39],
    &[0x78],
    &[0x55],
    // complete escapes, valid and just-invalid ones
    &[0x5C, 0x75, 0x30, 0x30, 0x34, 0x31],
    &[0x5C, 0x75, 0x7B, 0x34, 0x31, 0x7D],
    &[0x5C, 0x75, 0x7B, 0x32, 0x66, 0x66, 0x66, 0x66, 0x7D],
    &[0x5C, 0x75, 0x7B, 0x33, 0x30, 0x30, 0x30, 0x30, 0x7D],
    &[0x5C, 0x75, 0x7B, 0x30, 0x7D],
    &[0x5C, 0x75, 0x7B, 0x30, 0x30, 0x30, 0x34, 0x31, 0x7D],
    &[0x5C, 0x75, 0x7B, 0x30, 0x30, 0x30, 0x30, 0x34, 0x31, 0x7D],
    &[0x5C, 0x75, 0x64, 0x38, 0x30, 0x30],
];

pub fn run(tape: &[u8], cx: &Cx) -> Outcome {
    let mut t = Tape::new(tape);
    // text: token sequence
    // mostly up to 24 tokens; a tenth of the texts are long (hundreds of tokens)
    let n = if t.bool_p(26) { 60 + t.choose(300) } else { t.choose(25) };
    let mut text: Vec<u32> = Vec::new();
    for _ in 0..n {
        text.extend_from_slice(TOKENS[t.choose(TOKENS.len())]);
    }
    // string for the print direction: either arbitrary code points or something that *spells* an escape
    let mut s: Vec<u32> = Vec::new();
    // a tenth of the strings are long: runs of printable characters of 0-300 characters separated by
    // characters that need special treatment (buffered printers, block-wise readers)
    let m = if t.bool_p(26) {
        let runs = 1 + t.choose(5);
        for _ in 0..runs {
            let k = match t.weighted(&[2, 3, 2]) {
                0 => t.choose(40),
                1 => 100 + t.choose(60),
                _ => 230 + t.choose(60),
            };
            let c = t.pick(&[0x61u32, 0x7A, 0x20, 0x7E]);
            for _ in 0..k {
                s.push(c);
            }
            s.push(t.pick(&[0x22u32, 0x22, 0x5C, 0x7F, 0x100, 0x2FFFF, 0x0A]));
        }
        t.choose(4)
    } else {
        t.choose(10)
    };
    for _ in 0..m {
        match t.weighted(&[4, 3, 2, 2]) {
            0 => s.extend_from_slice(TOKENS[t.choose(TOKENS.len())]),
            1 => s.push(t.u32_in(0, 0x2FFFF)),
            2 => s.push(t.pick(&[0x22u32, 0x5C, 0x7F, 0x1F, 0x20, 0x7E, 0x80, 0xD800, 0xDFFF, 0xFFFF, 0x10000, 0x2FFFF, 0])),
            _ => {
                // a complete escape spelled out as characters
                let v = t.pick(&[0x41u32, 0x0, 0x22, 0x5C, 0x2FFFF, 0x1F600, 0xD800]);
                let form = if t.flag() { format!("\\u{{{:x}}}", v) } else { format!("\\u{:04x}", v & 0xFFFF) };
                s.extend(form.chars().map(|c| c as u32));
            }
        }
    }
    let mut o = Outcome::default();
    o.digest = fnv(format!("{:?}{:?}", text, s).as_bytes());
    if cx.render {
        o.render = format!("text {} ; string {}", show_text(&text), show_str(&s));
    }
    check_parse(&text, &mut o);
    check_print(&s, &mut o);
    // also: printing what was parsed, and parsing what was printed
    let parsed = r8::parse_literal(&text);
    check_print(&parsed, &mut o);
    let has_escape_prefix = text.windows(2).any(|w| w == [0x5C, 0x75]);
    let special = s.iter().any(|&c| c == 0x5C || !(0x20..0x7F).contains(&c));
    o.nontrivial = has_escape_prefix || special;
    if has_escape_prefix {
        o.tag("text-has-\\u");
    }
    if parsed.len() < text.len() {
        o.tag("text-has-valid-escape");
    }
    if s.contains(&0x5C) {
        o.tag("string-has-backslash");
    }
    if s.iter().any(|&c| !(0x20..0x7F).contains(&c)) {
        o.tag("string-has-non-printable");
    }
    o
}

fn for_all_words(alpha: &[u32], max_len: usize, part: usize, parts: usize, f: &mut dyn FnMut(&[u32])) {
    // words are numbered in length-lexicographic order; part k takes the words whose first
    // letter index + length is congruent k (cheap static split that keeps every part busy)
    let k = alpha.len();
    let mut word: Vec<u32> = Vec::new();
    if part == 0 {
        f(&word);
    }
    for len in 1..=max_len {
        let total = k.pow(len as u32);
        let mut idx = part;
        while idx < total {
            word.clear();
            let mut x = idx;
            for _ in 0..len {
                word.push(alpha[x % k]);
                x /= k;
            }
            f(&word);
            idx += parts;
        }
    }
}

pub fn enumerate(thorough: bool, part: usize, parts: usize, sink: &mut EnumSink) {
    // (i) all texts over 10 symbols
    let alpha: [u32; 10] = [0x5C, 0x75, 0x7B, 0x7D, 0x30, 0x32, 0x33, 0x66, 0x41, 0x67];
    let max_len = if thorough { 8 } else { 7 };
    let mut stop = false;
    for_all_words(&alpha, max_len, part, parts, &mut |w| {
        if stop {
            return;
        }
        let mut o = Outcome::default();
        check_parse(w, &mut o);
        let nt = w.windows(2).any(|x| x == [0x5C, 0x75]);
        sink.case(&o, nt, || format!("text {}", show_text(w)));
        if sink.failed() {
            stop = true;
        }
    });
    if sink.failed() {
        return;
    }
    // (ii) structured long escapes
    {
        // nothing, plain characters, and every kind of failed escape attempt (with and without hex digits
        // already consumed) directly in front of the escape under test
        let prefixes: [&[u32]; 12] = [
            &[],
            &[0x5C],
            &[0x67],
            &[0x5C, 0x75],
            &[0x5C, 0x75, 0x7B],
            &[0x5C, 0x75, 0x30],
            &[0x5C, 0x75, 0x30, 0x32],
            &[0x5C, 0x75, 0x30, 0x32, 0x66],
            &[0x5C, 0x75, 0x7B, 0x30],
            &[0x5C, 0x75, 0x7B, 0x30, 0x32, 0x66],
            &[0x5C, 0x75, 0x7B, 0x30, 0x32, 0x66, 0x33, 0x66],
            &[0x5C, 0x75, 0x7B, 0x33, 0x66, 0x66, 0x66, 0x66, 0x7D],
        ];
        let terms: [&[u32]; 6] = [&[0x7D], &[], &[0x67], &[0x5C], &[0x7B], &[0x7D, 0x7D]];
        let suffixes: [&[u32]; 3] = [&[], &[0x30], &[0x41]];
        let digits: [u32; 5] = [0x30, 0x32, 0x33, 0x66, 0x46];
        for braces in [true, false] {
            for k in 0..=7usize {
                let total = digits.len().pow(k as u32);
                for idx in 0..total {
                    if idx % parts != part {
                        continue;
                    }
                    let mut hexs = Vec::new();
                    let mut x = idx;
                    for _ in 0..k {
                        hexs.push(digits[x % digits.len()]);
                        x /= digits.len();
                    }
                    for pre in prefixes {
                        for term in terms {
                            for suf in suffixes {
                                let mut w: Vec<u32> = pre.to_vec();
                                w.extend([0x5C, 0x75]);
                                if braces {
                                    w.push(0x7B);
                                }
                                w.extend(&hexs);
                                w.extend(term);
                                w.extend(suf);
                                let mut o = Outcome::default();
                                check_parse(&w, &mut o);
                                sink.case(&o, true, || format!("text {}", show_text(&w)));
                            }
                        }
                    }
                }
                if sink.failed() {
                    return;
                }
            }
        }
    }
    // (iii') long digit runs: `\\u` + 8..12 hex digits over {0, f} (a four-digit escape directly followed by text
    // that reads as more hex digits), with the same prefixes / terminators / suffixes
    {
        let prefixes: [&[u32]; 3] = [&[], &[0x5C], &[0x5C, 0x75, 0x30, 0x30, 0x34, 0x31]];
        let terms: [&[u32]; 4] = [&[], &[0x7D], &[0x67], &[0x5C, 0x75, 0x30, 0x30, 0x34, 0x31]];
        for k in 8..=12usize {
            for idx in 0..(1usize << k) {
                if idx % parts != part {
                    continue;
                }
                let hexs: Vec<u32> = (0..k).map(|b| if idx >> b & 1 == 1 { 0x66 } else { 0x30 }).collect();
                for pre in prefixes {
                    for term in terms {
                        for braces in [false, true] {
                            let mut w: Vec<u32> = pre.to_vec();
                            w.extend([0x5C, 0x75]);
                            if braces {
                                w.push(0x7B);
                            }
                            w.extend(&hexs);
                            w.extend(term);
                            let mut o = Outcome::default();
                            check_parse(&w, &mut o);
                            sink.case(&o, true, || format!("text {}", show_text(&w)));
                        }
                    }
                }
            }
            if sink.failed() {
                return;
            }
        }
    }
    // (iv) print direction: all sequences over 9 code points
    let cps: [u32; 9] = [0x5C, 0x75, 0x7B, 0x7D, 0x34, 0x31, 0x22, 0x7F, 0x2FFFF];
    let plen = if thorough { 7 } else { 6 };
    let mut stop = false;
    for_all_words(&cps, plen, part, parts, &mut |w| {
        if stop {
            return;
        }
        let mut o = Outcome::default();
        check_print(w, &mut o);
        let nt = w.iter().any(|&c| c == 0x5C || !(0x20..0x7F).contains(&c));
        sink.case(&o, nt, || format!("string {}", show_str(w)));
        if sink.failed() {
            stop = true;
        }
    });
    // every single code point
    let mut x = part as u32;
    while x <= r8::MAX_CHAR {
        let mut o = Outcome::default();
        check_print(&[x], &mut o);
        check_print(&[0x5C, 0x75, x], &mut o);
        check_char_printers(x, &mut o);
        // x (ASCII included: `+`, `U`, `x`, ... are not part of the grammar) in every syntactic role of an escape (a reader that recognises `\`, `u`, `{`, `}` or a hex
        // digit by anything less than the whole code point takes x for one of them)
        if char::from_u32(x).is_some() {
            for tmpl in ROLE_TEMPLATES {
                for k in 0..tmpl.len() {
                    let mut w: Vec<u32> = tmpl.to_vec();
                    w[k] = x;
                    check_parse(&w, &mut o);
                }
            }
        }
        if char::from_u32(x).is_some() {
            check_parse(&[0x5C, 0x75, x, 0x7B, x], &mut o);
        }
        sink.case(&o, true, || format!("code point {:#x}", x));
        x += parts as u32;
    }
    if part == 0 {
        sink.stats.exhaustive_spaces.push(format!(
            "all texts of length <= {} over the 10 symbols \\ u {{ }} 0 2 3 f A g; all structured texts prefix.\\u[{{]hex^k.terminator.suffix for k <= 7; all strings of length <= {} over 9 code points (\\ u {{ }} 4 1 \" 0x7f 0x2ffff) printed and read back; every single code point printed (Display, char_to_smt, smt_char_as_string) and substituted for each character of `\\u0041` and `\\u{{41}}` in turn",
            max_len, plen
        ));
        sink.stats.samples.push("[enum] text `\\u{2f}` ; text `\\u{\\u0041` ; string <5c 75 7b 34 31 7d>".to_string());
    }
}
