//! C17 — every SmtString the API hands out contains only SMT-LIB characters.

use crate::atoms::show_str;
use crate::prog::{Prog, ProgCfg};
use crate::runner::{catch, Cx, Outcome};
use crate::smtref as r8;
use crate::tape::{fnv, Tape};
use aws_smt_strings::regular_expressions::ReManager;
use aws_smt_strings::smt_regular_expressions as w;
use aws_smt_strings::smt_strings::*;

const MAXC: u32 = 0x2FFFF;

fn good(s: &SmtString) -> bool {
    s.is_good() && s.as_ref().iter().all(|&c| c <= MAXC)
}

/// every string handed out must be usable with the rest of the crate
fn usable(s: &SmtString, what: &str, o: &mut Outcome) {
    o.evals += 1;
    if !good(s) {
        return; // reported by the caller
    }
    let s2 = s.clone();
    match catch(move || {
        let mut m = ReManager::new();
        let e = m.str(&s2);
        m.str_in_re(&s2, e)
    }) {
        Ok(true) => {}
        Ok(false) => o.fail("C17/str-not-in-own-regex", format!("{}: str_in_re(s, str(s)) is false for {}", what, show_str(s.as_ref()))),
        Err(msg) => o.fail("C17/regex-from-string-panics", format!("{}: ReManager::str panicked on {}: {}", what, show_str(s.as_ref()), msg)),
    }
}

fn expect_good(s: &SmtString, class: &str, what: String, o: &mut Outcome) -> bool {
    o.evals += 1;
    if !good(s) {
        o.fail(class, format!("{} = {} is not well-formed (is_good() = {})", what, show_str(s.as_ref()), s.is_good()));
        false
    } else {
        true
    }
}

fn gen_scalar(t: &mut Tape) -> char {
    let c = match t.weighted(&[5, 3, 3, 2]) {
        0 => t.u32_in(0x20, 0x7E),
        1 => t.pick(&[0x2FFFFu32, 0x30000, 0x10FFFF, 0x2FFFE, 0x30001, 0xD7FF, 0xE000, 0xFFFD, 0xFFFF, 0x10000, 0, 0x5C, 0x22, 0x100000, 0xFFFFF]),
        2 => t.u32_in(0, 0x10FFFF),
        _ => t.u32_in(0x30000, 0x10FFFF),
    };
    char::from_u32(c).unwrap_or('\u{FFFD}')
}

fn gen_u32(t: &mut Tape) -> u32 {
    match t.weighted(&[4, 3, 2, 2]) {
        0 => t.u32_in(0, 0x7F),
        1 => t.pick(&[0x2FFFFu32, 0x30000, u32::MAX, 0x2FFFE, 0x30001, 0xD800, 0xFFFD, 0x10FFFF, 0x110000, 0x7FFFFFFF, 0x80000000, 0]),
        2 => t.u32_in(0, 0x2FFFF),
        _ => t.u32_in(0, u32::MAX),
    }
}

pub fn run(tape: &[u8], cx: &Cx) -> Outcome {
    let mut t = Tape::new(tape);
    let text: String = if t.bool_p(30) {
        let n = 40 + t.choose(120);
        let mut v: Vec<char> = (0..n).map(|i| char::from_u32(0x61 + (i as u32 % 26)).unwrap()).collect();
        for _ in 0..1 + t.choose(3) {
            let k = t.choose(n);
            v[k] = gen_scalar(&mut t);
        }
        v.into_iter().collect()
    } else {
        let n = t.choose(7);
        (0..n).map(|_| gen_scalar(&mut t)).collect()
    };
    let one: char = gen_scalar(&mut t);
    // mostly short lists; a sixth of the cases long ones with few invalid values (block-wise code paths)
    let ints: Vec<u32> = if t.bool_p(42) {
        let m = 40 + t.choose(220);
        let mut v: Vec<u32> = (0..m).map(|i| 0x61 + (i as u32 % 26)).collect();
        let bad = 1 + t.choose(3);
        for _ in 0..bad {
            let k = t.choose(m);
            v[k] = gen_u32(&mut t);
        }
        v
    } else {
        let m = t.choose(7);
        (0..m).map(|_| gen_u32(&mut t)).collect()
    };
    let x: u32 = gen_u32(&mut t);
    // literal text with escapes and big characters
    let k = t.choose(8);
    let mut lit = String::new();
    for _ in 0..k {
        match t.weighted(&[3, 2, 2]) {
            0 => lit.push(gen_scalar(&mut t)),
            // (escapes, and runs of hex digits that read as a too-large number when glued to an escape)
            1 => lit.push_str(t.pick(&["\\u{2ffff}", "\\u{30000}", "\\u{10ffff}", "\\uFFFF", "\\u{", "\\u", "}", "\\u{d800}", "\\u0041", "ffffff", "FFFFFFF", "ffff", "\\u{0"])),
            _ => lit.push(t.pick(&['a', '\\', 'u', '{', '}', '0'])),
        }
    }
    let i1 = t.u32_in(0, 9) as i32 - 2;
    let i2 = t.u32_in(0, 9) as i32 - 2;
    let num: i32 = match t.weighted(&[2, 2, 1]) {
        0 => t.u32_in(0, 0x40000) as i32,
        1 => t.u32_in(0, u32::MAX) as i32,
        _ => t.pick(&[0x2FFFF, 0x30000, -1, i32::MAX, i32::MIN, 0xFFFD]),
    };
    let prog = Prog::decode(&mut t, &ProgCfg { max_ins: 6, max_landmarks: 4, ..ProgCfg::default() });

    let mut o = Outcome::default();
    o.digest = fnv(format!("{:?}{:?}{:?}{}{:?}{}{}{}{:?}", text, one, ints, x, lit, i1, i2, num, prog.ins).as_bytes());
    if cx.render {
        o.render = format!(
            "from(&str) {:?}; from(char) {:?}; from(&[u32]) {:x?}; from(u32) {:#x}; literal {:?}; ints {} {} {}; regex {}",
            text, one, ints, x, lit, i1, i2, num, prog.render()
        );
    }
    let text_in_range = text.chars().all(|c| c as u32 <= MAXC);
    let text_cps: Vec<u32> = text.chars().map(|c| c as u32).collect();

    // --- text constructors
    let s1 = SmtString::from(text.as_str());
    let s2 = SmtString::from(text.clone());
    let s3 = SmtString::from(one);
    let cls = "C17/text-constructor-keeps-out-of-range";
    let ok1 = expect_good(&s1, cls, format!("SmtString::from(&str {:?})", text), &mut o);
    expect_good(&s2, cls, format!("SmtString::from(String {:?})", text), &mut o);
    expect_good(&s3, cls, format!("SmtString::from(char {:?})", one), &mut o);
    if text_in_range && (s1.as_ref() != &text_cps[..] || s2.as_ref() != &text_cps[..]) {
        o.fail("C17/text-constructor-changes-valid", format!("SmtString::from({:?}) = {}", text, show_str(s1.as_ref())));
    }
    if one as u32 <= MAXC && s3.as_ref() != &[one as u32][..] {
        o.fail("C17/text-constructor-changes-valid", format!("SmtString::from({:?}) = {}", one, show_str(s3.as_ref())));
    }
    // in-range characters are preserved in order (as a subsequence) even when others are replaced
    if ok1 {
        let kept: Vec<u32> = text_cps.iter().copied().filter(|&c| c <= MAXC).collect();
        for (name, sx) in [("&str", &s1), ("String", &s2)] {
            let mut it = sx.as_ref().iter();
            if !kept.iter().all(|c| it.any(|d| d == c)) {
                o.fail("C17/text-constructor-changes-valid", format!("SmtString::from({} {:?}) = {} loses valid characters", name, text, show_str(sx.as_ref())));
            }
        }
    }
    usable(&s1, "from(&str)", &mut o);
    usable(&s2, "from(String)", &mut o);
    usable(&s3, "from(char)", &mut o);

    // --- integer constructors: x <= MAX kept, others replaced by 0xFFFD
    let exp: Vec<u32> = ints.iter().map(|&c| if c <= MAXC { c } else { 0xFFFD }).collect();
    let a1 = SmtString::from(&ints[..]);
    let a2 = SmtString::from(ints.clone());
    // the same values in a vector with much spare capacity (what a caller gets from with_capacity + push,
    // or from truncating a long vector): the result must not depend on the allocation
    let mut roomy: Vec<u32> = Vec::with_capacity(ints.len() * 8 + 64);
    roomy.extend_from_slice(&ints);
    let a2r = SmtString::from(roomy);
    let mut cut: Vec<u32> = ints.clone();
    cut.extend(std::iter::repeat(0x61).take(ints.len() * 6 + 40));
    cut.truncate(ints.len());
    let a2t = SmtString::from(cut);
    let a3 = SmtString::from(x);
    let mut arr = [0u32; 3];
    for (i, slot) in arr.iter_mut().enumerate() {
        *slot = ints.get(i).copied().unwrap_or(x);
    }
    let a4 = SmtString::from(&arr);
    let exp4: Vec<u32> = arr.iter().map(|&c| if c <= MAXC { c } else { 0xFFFD }).collect();
    // arrays of other sizes (the impl is generic in N): 1, 8, 33 elements taken cyclically from the list
    fn arr_of<const N: usize>(ints: &[u32], x: u32) -> [u32; N] {
        let mut a = [0u32; N];
        for (i, slot) in a.iter_mut().enumerate() {
            *slot = if ints.is_empty() { x } else { ints[i % ints.len()] };
        }
        a
    }
    let fix = |v: &[u32]| -> Vec<u32> { v.iter().map(|&c| if c <= MAXC { c } else { 0xFFFD }).collect() };
    let (b1, b8, b33) = (arr_of::<1>(&ints, x), arr_of::<8>(&ints, x), arr_of::<33>(&ints, x));
    let (g1, g8, g33) = (SmtString::from(&b1), SmtString::from(&b8), SmtString::from(&b33));
    let (e1, e8, e33) = (fix(&b1), fix(&b8), fix(&b33));
    for (name, got, e) in [("from(&[u32])", &a1, &exp), ("from(Vec<u32>)", &a2, &exp), ("from(Vec<u32> with spare capacity)", &a2r, &exp), ("from(truncated Vec<u32>)", &a2t, &exp), ("from(&[u32;3])", &a4, &exp4), ("from(&[u32;1])", &g1, &e1), ("from(&[u32;8])", &g8, &e8), ("from(&[u32;33])", &g33, &e33)] {
        o.evals += 1;
        if got.as_ref() != &e[..] {
            o.fail("C17/int-constructor", format!("SmtString::{} on {:x?} = {}, expected {}", name, ints, show_str(got.as_ref()), show_str(e)));
        }
        usable(got, name, &mut o);
    }
    let e3 = if x <= MAXC { x } else { 0xFFFD };
    if a3.as_ref() != &[e3][..] {
        o.fail("C17/int-constructor", format!("SmtString::from({:#x}u32) = {}", x, show_str(a3.as_ref())));
    }

    // --- parse_smt_literal
    let p = parse_smt_literal(&lit);
    expect_good(&p, cls, format!("parse_smt_literal({:?})", lit), &mut o);
    let lit_cps: Vec<u32> = lit.chars().map(|c| c as u32).collect();
    if lit_cps.iter().all(|&c| c <= MAXC) {
        let e = r8::parse_literal(&lit_cps);
        if p.as_ref() != &e[..] {
            o.fail("C17/parse-differs", format!("parse_smt_literal({:?}) = {}, expected {}", lit, show_str(p.as_ref()), show_str(&e)));
        }
    }
    usable(&p, "parse_smt_literal", &mut o);
    // braced escapes spelled from the generated integer (no further tape bytes): 1-5 hex digits in either
    // case, every leading digit — values above 0x2FFFF must be copied as text, never decoded
    for v in [x & 0xFFFFF, (x >> 12) & 0xFFFFF, (x >> 7) & 0xFFFFF] {
        for l2 in [format!("\\u{{{:X}}}", v), format!("a\\u{{{:x}}}b", v)] {
            o.evals += 1;
            let p2 = parse_smt_literal(&l2);
            expect_good(&p2, cls, format!("parse_smt_literal({:?})", l2), &mut o);
            let cps: Vec<u32> = l2.chars().map(|c| c as u32).collect();
            let e = r8::parse_literal(&cps);
            if p2.as_ref() != &e[..] {
                o.fail("C17/parse-differs", format!("parse_smt_literal({:?}) = {}, expected {}", l2, show_str(p2.as_ref()), show_str(&e)));
            }
        }
    }

    // --- operation results on well-formed strings
    let wf: Vec<SmtString> = vec![a1.clone(), a3.clone(), SmtString::from(&exp4[..])];
    for (i, s) in wf.iter().enumerate() {
        let tt = &wf[(i + 1) % wf.len()];
        let u = &wf[(i + 2) % wf.len()];
        let results = [
            ("str_concat", str_concat(s, tt)),
            ("str_at", str_at(s, i1)),
            ("str_substr", str_substr(s, i1, i2)),
            ("str_replace", str_replace(s, tt, u)),
            ("str_replace_all", str_replace_all(s, &str_at(s, i1.max(0)), u)),
            ("str_from_int", str_from_int(num)),
            ("str_from_code", str_from_code(num)),
        ];
        for (name, r) in results.iter() {
            if expect_good(r, "C17/operation-result", format!("{}(..)", name), &mut o) {
                if i == 0 {
                    usable(r, name, &mut o);
                }
            }
        }
    }

    // --- regex replace and witness generation
    let subject = a1.clone();
    let repl = a3.clone();
    let prog2 = prog.clone();
    let res = crate::runner::spawn_user_thread(move || {
        catch(move || {
            let terms = prog2.build_wrapped();
            let e = *terms.last().unwrap();
            (w::str_replace_re(&subject, e, &repl), w::str_replace_re_all(&subject, e, &repl))
        })
    })
    .join()
    .unwrap_or_else(|_| Err("thread died".into()));
    match res {
        Ok((r1, r2)) => {
            expect_good(&r1, "C17/operation-result", "str_replace_re(..)".into(), &mut o);
            expect_good(&r2, "C17/operation-result", "str_replace_re_all(..)".into(), &mut o);
        }
        Err(msg) => {
            if !crate::rx::is_overflow(&msg, prog.max_loop_bound()) {
                o.fail("C17/regex-replace-panics", format!("regex replace panicked: {}", msg));
            }
        }
    }
    let mut mgr = ReManager::new();
    if let Ok(terms) = catch(|| prog.build(&mut mgr)) {
        let e = *terms.last().unwrap();
        if crate::bisim::deriv_closure(&mut mgr, &prog.atoms, e, 400).is_some() {
            if let Some(wit) = mgr.get_string(e) {
                if expect_good(&wit, "C17/witness", "get_string(..)".into(), &mut o) {
                    usable(&wit, "get_string", &mut o);
                }
                o.tag("witness");
            }
        }
    }
    let out_of_range = !text_in_range || one as u32 > MAXC || ints.iter().any(|&c| c > MAXC) || x > MAXC || lit_cps.iter().any(|&c| c > MAXC);
    o.nontrivial = out_of_range;
    if !text_in_range || one as u32 > MAXC {
        o.tag("text-with-char>0x2FFFF");
    }
    if ints.iter().any(|&c| c > MAXC) || x > MAXC {
        o.tag("ints>0x2FFFF");
    }
    if ints.len() > 64 {
        o.tag("ints-longer-than-64");
    }
    if lit_cps.iter().any(|&c| c > MAXC) {
        o.tag("literal-with-char>0x2FFFF");
    }
    o
}
