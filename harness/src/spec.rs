//! Builder specifications (call sequences for AutomatonBuilder<u32>), their own meaning computed
//! by linear scans, generators for complete/deterministic specs with deliberate equivalences and
//! unreachable parts, mutations that break them, and the lock-step walk spec <-> automaton.

use crate::atoms::{show_char, Atoms, MAX};
use crate::runner::catch;
use crate::tape::Tape;
use aws_smt_strings::automata::{Automaton, AutomatonBuilder};
use aws_smt_strings::character_sets::CharSet;
use aws_smt_strings::errors::Error;
use std::collections::{BTreeMap, BTreeSet, HashMap, VecDeque};

#[derive(Clone, Debug, PartialEq, Eq, Hash)]
pub enum Call {
    Trans(u32, (u32, u32), u32),
    Default(u32, u32),
    Final(u32),
}

#[derive(Clone, Debug)]
pub struct Spec {
    pub init: u32,
    pub calls: Vec<Call>,
}

#[derive(Clone, Debug, Default)]
pub struct StateView {
    pub trans: Vec<((u32, u32), u32)>,
    pub default: Option<u32>,
    pub is_final: bool,
}

impl Spec {
    /// labels in order of first mention (the initial label first)
    pub fn labels(&self) -> Vec<u32> {
        let mut v = vec![self.init];
        let mut push = |x: u32, v: &mut Vec<u32>| {
            if !v.contains(&x) {
                v.push(x);
            }
        };
        for c in &self.calls {
            match c {
                Call::Trans(s, _, n) | Call::Default(s, n) => {
                    push(*s, &mut v);
                    push(*n, &mut v);
                }
                Call::Final(s) => push(*s, &mut v),
            }
        }
        v
    }

    pub fn view(&self) -> BTreeMap<u32, StateView> {
        let mut m: BTreeMap<u32, StateView> = BTreeMap::new();
        for l in self.labels() {
            m.insert(l, StateView::default());
        }
        for c in &self.calls {
            match c {
                Call::Trans(s, set, n) => m.get_mut(s).unwrap().trans.push((*set, *n)),
                Call::Default(s, n) => m.get_mut(s).unwrap().default = Some(*n),
                Call::Final(s) => m.get_mut(s).unwrap().is_final = true,
            }
        }
        m
    }

    pub fn render(&self) -> String {
        let mut s = format!("new({})", self.init);
        for c in &self.calls {
            match c {
                Call::Trans(a, (x, y), b) => s.push_str(&format!("; {} -[{},{}]-> {}", a, show_char(*x), show_char(*y), b)),
                Call::Default(a, b) => s.push_str(&format!("; default({}) = {}", a, b)),
                Call::Final(a) => s.push_str(&format!("; final({})", a)),
            }
        }
        s
    }

    /// one builder, two build() calls: the calls of `self`, build, then `extra`, build again
    pub fn build_twice(&self, extra: &[Call], first_unchecked: bool) -> Result<(Result<Automaton, Error>, Result<Automaton, Error>), String> {
        catch(|| {
            let mut b: AutomatonBuilder<u32> = AutomatonBuilder::new(&self.init);
            let apply = |b: &mut AutomatonBuilder<u32>, c: &Call| match c {
                Call::Trans(s, (x, y), n) => {
                    b.add_transition(s, &CharSet::range(*x, *y), n);
                }
                Call::Default(s, n) => {
                    b.set_default_successor(s, n);
                }
                Call::Final(s) => {
                    b.mark_final(s);
                }
            };
            for c in &self.calls {
                apply(&mut b, c);
            }
            // build_unchecked is only legitimate on a valid specification (the caller guarantees that)
            let first = if first_unchecked { Ok(b.build_unchecked()) } else { b.build() };
            for c in extra {
                apply(&mut b, c);
            }
            let second = b.build();
            (first, second)
        })
    }

    pub fn build(&self) -> Result<Result<Automaton, Error>, String> {
        self.build_with(|l| l)
    }

    /// the same calls with the labels mapped into another state type (the builder is generic in it)
    pub fn build_with<T: Eq + std::hash::Hash + Clone>(&self, f: impl Fn(u32) -> T) -> Result<Result<Automaton, Error>, String> {
        catch(|| {
            let mut b: AutomatonBuilder<T> = AutomatonBuilder::new(&f(self.init));
            for c in &self.calls {
                match c {
                    Call::Trans(s, (x, y), n) => {
                        b.add_transition(&f(*s), &CharSet::range(*x, *y), &f(*n));
                    }
                    Call::Default(s, n) => {
                        b.set_default_successor(&f(*s), &f(*n));
                    }
                    Call::Final(s) => {
                        b.mark_final(&f(*s));
                    }
                }
            }
            b.build()
        })
    }
}

/// A state type whose `Hash` is lawful (equal values hash equally) but nearly useless: many different
/// labels share a hash. The builder must tell states apart by `Eq`, not by their hash.
#[derive(Clone, Debug, PartialEq, Eq)]
pub struct WeakLabel(pub u32, pub String);

impl std::hash::Hash for WeakLabel {
    fn hash<H: std::hash::Hasher>(&self, state: &mut H) {
        (self.0 % 2).hash(state);
    }
}

#[derive(Clone, Debug, Default, PartialEq, Eq)]
pub struct StateFacts {
    /// some character is given two different successors by the transitions
    pub conflict: bool,
    /// two transitions overlap (same or different target)
    pub overlap: bool,
    /// some character has neither a transition nor a declared default
    pub incomplete: bool,
    /// a default is declared although the transitions cover every character
    pub useless_default: bool,
}

pub fn state_facts(v: &StateView) -> StateFacts {
    // segments of [0, MAX] induced by the labels' end points (any number of labels)
    let mut cuts: Vec<u32> = vec![0];
    for ((a, b), _) in &v.trans {
        cuts.push(*a);
        if *b < MAX {
            cuts.push(*b + 1);
        }
    }
    cuts.sort_unstable();
    cuts.dedup();
    let mut f = StateFacts::default();
    let mut full = true;
    for &c in &cuts {
        let mut first: Option<u32> = None;
        let mut count = 0usize;
        for ((a, b), n) in &v.trans {
            if *a <= c && c <= *b {
                count += 1;
                match first {
                    None => first = Some(*n),
                    Some(x) if x != *n => f.conflict = true,
                    _ => {}
                }
            }
        }
        if count >= 2 {
            f.overlap = true;
        }
        if count == 0 {
            full = false;
        }
    }
    if !full && v.default.is_none() {
        f.incomplete = true;
    }
    if full && v.default.is_some() {
        f.useless_default = true;
    }
    f
}

/// the successor the caller specified: the explicit transition covering c, else the declared default
pub fn ref_next(v: &StateView, c: u32) -> Option<u32> {
    for ((a, b), n) in &v.trans {
        if *a <= c && c <= *b {
            return Some(*n);
        }
    }
    v.default
}

/// break points of a state view
pub fn view_probe_chars(v: &StateView) -> Vec<u32> {
    let mut s: BTreeSet<u32> = BTreeSet::new();
    s.insert(0);
    s.insert(MAX);
    for ((a, b), _) in &v.trans {
        for c in [*a, *b] {
            s.insert(c);
            if c > 0 {
                s.insert(c - 1);
            }
            if c < MAX {
                s.insert(c + 1);
            }
        }
        s.insert(a + (b - a) / 2);
    }
    s.into_iter().collect()
}

#[derive(Debug)]
pub enum WalkResult {
    /// label -> state id on the reachable part
    Ok(BTreeMap<u32, usize>),
    Mismatch(String),
}

/// walk the automaton and the spec in lock-step from the initial state; the spec must be
/// conflict-free and complete on every label reached
pub fn lockstep(spec: &Spec, a: &Automaton) -> WalkResult {
    lockstep_seeded(spec, a, &[])
}

/// the same walk started from the initial state and from further (label, state id) pairs: used to
/// compare the part of the specification that is not reachable from the initial label, under an
/// assumed correspondence between the remaining labels and the remaining states
pub fn lockstep_seeded(spec: &Spec, a: &Automaton, seeds: &[(u32, usize)]) -> WalkResult {
    let view = spec.view();
    let mut map: BTreeMap<u32, usize> = BTreeMap::new();
    let mut rev: HashMap<usize, u32> = HashMap::new();
    let mut q: VecDeque<u32> = VecDeque::new();
    map.insert(spec.init, a.initial_state().id());
    rev.insert(a.initial_state().id(), spec.init);
    q.push_back(spec.init);
    for &(l, id) in seeds {
        if map.contains_key(&l) || rev.contains_key(&id) || id >= a.num_states() {
            return WalkResult::Mismatch(format!("seed ({}, {}) clashes with the reachable part", l, id));
        }
        map.insert(l, id);
        rev.insert(id, l);
        q.push_back(l);
    }
    while let Some(l) = q.pop_front() {
        let sid = map[&l];
        let st = a.state(sid);
        let v = &view[&l];
        if st.is_final() != v.is_final {
            return WalkResult::Mismatch(format!("state for label {} has is_final = {} but the label was {}marked final", l, st.is_final(), if v.is_final { "" } else { "not " }));
        }
        let mut chars = view_probe_chars(v);
        chars.extend(crate::bisim::state_probe_chars(st, &[]));
        chars.sort_unstable();
        chars.dedup();
        for c in chars {
            let exp = match ref_next(v, c) {
                Some(x) => x,
                None => return WalkResult::Mismatch(format!("label {} has no successor for {} in the specification", l, show_char(c))),
            };
            let got = match catch(|| a.next(st, c).id()) {
                Ok(g) => g,
                Err(msg) => return WalkResult::Mismatch(format!("next(state of label {}, {}) panicked: {}", l, show_char(c), msg)),
            };
            match map.get(&exp) {
                Some(&id) => {
                    if id != got {
                        return WalkResult::Mismatch(format!("label {} on {}: the specification says successor label {} (state {}), the automaton goes to state {}", l, show_char(c), exp, id, got));
                    }
                }
                None => {
                    if let Some(other) = rev.get(&got) {
                        return WalkResult::Mismatch(format!("label {} on {}: the specification says successor label {}, the automaton goes to the state of label {}", l, show_char(c), exp, other));
                    }
                    map.insert(exp, got);
                    rev.insert(got, exp);
                    q.push_back(exp);
                }
            }
        }
    }
    WalkResult::Ok(map)
}

// ---------------------------------------------------------------------------------------------
// generators
// ---------------------------------------------------------------------------------------------

/// a complete deterministic automaton description over atoms: per state, runs of consecutive atoms
#[derive(Clone, Debug)]
pub struct Sem {
    pub atoms: Atoms,
    /// delta[state][atom]
    pub delta: Vec<Vec<usize>>,
    pub fin: Vec<bool>,
    /// number of base (pairwise possibly distinct) states; the rest are clones or unreachable extras
    pub n_base: usize,
    pub n_clones: usize,
    pub n_unreachable: usize,
}

pub struct GenCfg {
    pub max_landmarks: usize,
    pub max_base: usize,
    pub max_clones: usize,
    pub max_unreachable: usize,
}

pub fn gen_sem(t: &mut Tape, cfg: &GenCfg) -> Sem {
    let atoms = Atoms::decode(t, cfg.max_landmarks);
    let k = atoms.len();
    let nb = 1 + t.choose(cfg.max_base);
    let mut delta: Vec<Vec<usize>> = Vec::new();
    let mut fin: Vec<bool> = Vec::new();
    let all_final = t.bool_p(20);
    let none_final = !all_final && t.bool_p(20);
    for _ in 0..nb {
        // runs of consecutive atoms
        let mut row = vec![0usize; k];
        let mut i = 0;
        while i < k {
            let len = 1 + t.choose(k - i).min(t.choose(4));
            let target = t.choose(nb);
            for x in i..(i + len).min(k) {
                row[x] = target;
            }
            i += len;
        }
        delta.push(row);
        fin.push(if all_final {
            true
        } else if none_final {
            false
        } else {
            t.flag()
        });
    }
    // clones: equivalent copies; some incoming edges are redirected to the copy
    let nc = t.choose(cfg.max_clones + 1);
    for _ in 0..nc {
        let n = delta.len();
        let orig = t.choose(n);
        let row = delta[orig].clone();
        let f = fin[orig];
        delta.push(row);
        fin.push(f);
        let new_id = n;
        // redirect
        for s in 0..=n {
            for x in 0..k {
                if delta[s][x] == orig && t.bool_p(90) {
                    delta[s][x] = new_id;
                }
            }
        }
    }
    // unreachable extras: nobody (except other extras) points to them
    let nu = t.choose(cfg.max_unreachable + 1);
    let n_reach = delta.len();
    for _ in 0..nu {
        let n = delta.len();
        let mut row = vec![0usize; k];
        let mut i = 0;
        while i < k {
            let len = 1 + t.choose(k - i).min(t.choose(4));
            let target = t.choose(n + 1); // may point to itself or anything earlier
            for x in i..(i + len).min(k) {
                row[x] = target;
            }
            i += len;
        }
        delta.push(row);
        fin.push(t.flag());
    }
    let _ = n_reach;
    Sem { atoms, delta, fin, n_base: nb, n_clones: nc, n_unreachable: nu }
}

/// Turn a semantic automaton into builder calls: labels are a permutation of small numbers, each
/// state chooses which target (if any) is left to the declared default, calls are shuffled.
/// The result is complete, conflict-free, with pairwise disjoint labels, and declares a default
/// exactly in the states that leave characters uncovered.
pub fn sem_to_spec(t: &mut Tape, sem: &Sem) -> Spec {
    let n = sem.delta.len();
    let k = sem.atoms.len();
    // labels: state i -> label
    let mut labels: Vec<u32> = (0..n as u32).map(|i| i * 3 + 1).collect();
    for i in (1..n).rev() {
        let j = t.choose(i + 1);
        labels.swap(i, j);
    }
    // state 0 is the initial one
    let init = labels[0];
    let mut calls: Vec<Call> = Vec::new();
    for s in 0..n {
        // runs
        let mut runs: Vec<(usize, usize, usize)> = Vec::new(); // (first atom, last atom, target)
        let mut i = 0;
        while i < k {
            let tgt = sem.delta[s][i];
            let mut j = i;
            while j + 1 < k && sem.delta[s][j + 1] == tgt {
                j += 1;
            }
            // sometimes split a run into two adjacent transitions
            if j > i && t.bool_p(50) {
                let m = i + t.choose(j - i);
                runs.push((i, m, tgt));
                runs.push((m + 1, j, tgt));
            } else {
                runs.push((i, j, tgt));
            }
            i = j + 1;
        }
        // default: none, or one of the targets; runs to that target may be left implicit
        let use_default = t.bool_p(190);
        let mut any_implicit = false;
        let dtarget = if use_default { Some(runs[t.choose(runs.len())].2) } else { None };
        for &(a, b, tgt) in &runs {
            let implicit = dtarget == Some(tgt) && (!any_implicit || t.bool_p(170));
            if implicit {
                any_implicit = true;
            } else {
                calls.push(Call::Trans(labels[s], (sem.atoms.atoms[a].0, sem.atoms.atoms[b].1), labels[tgt]));
            }
        }
        if let Some(d) = dtarget {
            debug_assert!(any_implicit);
            calls.push(Call::Default(labels[s], labels[d]));
        }
        if sem.fin[s] {
            calls.push(Call::Final(labels[s]));
            // marking a state final is idempotent: now and then the caller says it twice
            if t.bool_p(40) {
                calls.push(Call::Final(labels[s]));
            }
        }
    }
    // shuffle the calls
    for i in (1..calls.len()).rev() {
        let j = t.choose(i + 1);
        calls.swap(i, j);
    }
    Spec { init, calls }
}

#[derive(Clone, Copy, Debug, PartialEq, Eq)]
pub enum Mutation {
    None,
    DropDefault,
    DropTransition,
    AddConflict,
    AddSameTargetOverlap,
    UselessDefault,
    ShrinkTransition,
    NewStateOnlyAsTarget,
}

/// break (or perturb) a good spec
pub fn mutate(t: &mut Tape, spec: &mut Spec) -> Mutation {
    let kind = t.weighted(&[2, 4, 4, 5, 2, 2, 3, 2]);
    let labels = spec.labels();
    match kind {
        0 => Mutation::None,
        1 => {
            let idx: Vec<usize> = spec.calls.iter().enumerate().filter(|(_, c)| matches!(c, Call::Default(..))).map(|(i, _)| i).collect();
            if idx.is_empty() {
                return Mutation::None;
            }
            spec.calls.remove(idx[t.choose(idx.len())]);
            Mutation::DropDefault
        }
        2 => {
            let idx: Vec<usize> = spec.calls.iter().enumerate().filter(|(_, c)| matches!(c, Call::Trans(..))).map(|(i, _)| i).collect();
            if idx.is_empty() {
                return Mutation::None;
            }
            spec.calls.remove(idx[t.choose(idx.len())]);
            Mutation::DropTransition
        }
        3 | 4 => {
            // add a transition overlapping an existing one (or the default region)
            let idx: Vec<usize> = spec.calls.iter().enumerate().filter(|(_, c)| matches!(c, Call::Trans(..))).map(|(i, _)| i).collect();
            if idx.is_empty() {
                return Mutation::None;
            }
            let i = idx[t.choose(idx.len())];
            if let Call::Trans(s, (a, b), n) = spec.calls[i].clone() {
                // overlapping piece: a sub-range, a super-range or a straddling range
                let (x, y) = match t.choose(4) {
                    0 => (a, a),
                    1 => (b, b),
                    2 => (a.saturating_sub(1), b),
                    _ => (a + (b - a) / 2, (b + 1).min(MAX)),
                };
                let target = if kind == 3 {
                    // a different target
                    let others: Vec<u32> = labels.iter().copied().filter(|&l| l != n).collect();
                    if others.is_empty() {
                        n + 1000
                    } else {
                        others[t.choose(others.len())]
                    }
                } else {
                    n
                };
                let pos = t.choose(spec.calls.len() + 1);
                spec.calls.insert(pos, Call::Trans(s, (x, y), target));
                if kind == 3 {
                    Mutation::AddConflict
                } else {
                    Mutation::AddSameTargetOverlap
                }
            } else {
                Mutation::None
            }
        }
        5 => {
            // declare a default in a state that has none
            let view = spec.view();
            let cands: Vec<u32> = view.iter().filter(|(_, v)| v.default.is_none()).map(|(l, _)| *l).collect();
            if cands.is_empty() {
                return Mutation::None;
            }
            let s = cands[t.choose(cands.len())];
            let d = labels[t.choose(labels.len())];
            spec.calls.push(Call::Default(s, d));
            Mutation::UselessDefault
        }
        6 => {
            // shrink a transition by one character at one end (leaves a one-character hole or hands it to the default)
            let idx: Vec<usize> = spec.calls.iter().enumerate().filter(|(_, c)| matches!(c, Call::Trans(_, (a, b), _) if a < b)).map(|(i, _)| i).collect();
            if idx.is_empty() {
                return Mutation::None;
            }
            let i = idx[t.choose(idx.len())];
            if let Call::Trans(s, (a, b), n) = spec.calls[i].clone() {
                spec.calls[i] = if t.flag() { Call::Trans(s, (a + 1, b), n) } else { Call::Trans(s, (a, b - 1), n) };
            }
            Mutation::ShrinkTransition
        }
        _ => {
            // a brand-new label that only ever appears as a target: it has no transitions and no default
            let s = labels[t.choose(labels.len())];
            let fresh = labels.iter().max().unwrap() + 7;
            let idx: Vec<usize> = spec.calls.iter().enumerate().filter(|(_, c)| matches!(c, Call::Trans(x, _, _) if *x == s)).map(|(i, _)| i).collect();
            if idx.is_empty() {
                return Mutation::None;
            }
            let i = idx[t.choose(idx.len())];
            if let Call::Trans(a, set, _) = spec.calls[i].clone() {
                spec.calls[i] = Call::Trans(a, set, fresh);
            }
            Mutation::NewStateOnlyAsTarget
        }
    }
}

/// calls issued after a first build(): new transitions (overlapping an existing label or not),
/// declared or re-declared defaults, final marks
pub fn gen_extra_calls(t: &mut Tape, spec: &Spec) -> Vec<Call> {
    let labels = spec.labels();
    let trans: Vec<(u32, (u32, u32), u32)> = spec.calls.iter().filter_map(|c| if let Call::Trans(s, r, n) = c { Some((*s, *r, *n)) } else { None }).collect();
    let n = 1 + t.choose(3);
    let mut out = Vec::new();
    for _ in 0..n {
        match t.weighted(&[5, 3, 1]) {
            0 if !trans.is_empty() => {
                let (s, (a, b), nx) = trans[t.choose(trans.len())];
                let (x, y) = match t.choose(4) {
                    0 => (a, a),
                    1 => (b, b),
                    2 => (a + (b - a) / 2, b),
                    _ => (a, (b + 1).min(MAX)),
                };
                let target = if t.flag() { nx } else { labels[t.choose(labels.len())] };
                out.push(Call::Trans(s, (x, y), target));
            }
            1 => {
                let s = labels[t.choose(labels.len())];
                let d = labels[t.choose(labels.len())];
                out.push(Call::Default(s, d));
            }
            _ => out.push(Call::Final(labels[t.choose(labels.len())])),
        }
    }
    out
}
