//! C09 — lexicographic order and int/code conversions are exact in every build profile.
//! Every case is executed by both the `rel` and the `dbg` binary with the same seeds; each must
//! match the oracle (value, -1, or "must panic"), hence the two profiles agree with each other.

use crate::atoms::show_str;
use crate::runner::{catch, Cx, EnumSink, Outcome};
use crate::smtref as r7;
use crate::tape::{fnv, Tape};
use aws_smt_strings::smt_strings::*;

fn smt(s: &[u32]) -> SmtString {
    SmtString::from(s)
}

pub fn check_order(a: &[u32], b: &[u32], c: &[u32], o: &mut Outcome) {
    let (ca, cb, cc) = (smt(a), smt(b), smt(c));
    o.evals += 6;
    for (x, y, cx, cy) in [(a, b, &ca, &cb), (b, a, &cb, &ca), (a, c, &ca, &cc), (b, c, &cb, &cc), (a, a, &ca, &ca)] {
        let lt = str_lt(cx, cy);
        let le = str_le(cx, cy);
        // lexicographic order on code point sequences = Rust's slice order on [u32]
        if lt != (x < y) {
            o.fail("C09/str_lt", format!("str_lt({},{}) = {}, expected {}", show_str(x), show_str(y), lt, x < y));
        }
        if le != (x <= y) {
            o.fail("C09/str_le", format!("str_le({},{}) = {}, expected {}", show_str(x), show_str(y), le, x <= y));
        }
        // consistency with equality, trichotomy
        let eq = cx == cy;
        if le != (lt || eq) {
            o.fail("C09/order-consistency", format!("le != (lt or eq) for {} {}", show_str(x), show_str(y)));
        }
        let gt = str_lt(cy, cx);
        if (lt as u8 + eq as u8 + gt as u8) != 1 {
            o.fail("C09/order-consistency", format!("trichotomy fails for {} {}", show_str(x), show_str(y)));
        }
        // prefix => le
        if str_prefixof(cx, cy) && !le {
            o.fail("C09/order-consistency", format!("{} is a prefix of {} but not <=", show_str(x), show_str(y)));
        }
    }
    // transitivity on the triple
    if str_le(&ca, &cb) && str_le(&cb, &cc) && !str_le(&ca, &cc) {
        o.fail("C09/order-consistency", format!("str_le not transitive on {} {} {}", show_str(a), show_str(b), show_str(c)));
    }
    if str_lt(&ca, &cb) && str_lt(&cb, &cc) && !str_lt(&ca, &cc) {
        o.fail("C09/order-consistency", format!("str_lt not transitive on {} {} {}", show_str(a), show_str(b), show_str(c)));
    }
}

pub fn check_to_int(s: &[u32], o: &mut Outcome) {
    o.evals += 1;
    let cs = smt(s);
    let exp = r7::to_int(s);
    let got = catch(|| str_to_int(&cs));
    match (exp, got) {
        (None, Ok(v)) => {
            if v != -1 {
                o.fail("C09/to_int/non-digit", format!("str_to_int({}) = {}, expected -1", show_str(s), v));
            }
        }
        (None, Err(m)) => o.fail("C09/to_int/panics-on-non-digit", format!("str_to_int({}) panicked ({}) but the string is not all digits: expected -1", show_str(s), m)),
        (Some(x), Ok(v)) => {
            if x > i32::MAX as u128 {
                o.fail("C09/to_int/overflow-wraps", format!("str_to_int({}) = {} but the value {} does not fit in i32: must panic", show_str(s), v, x));
            } else if v as i128 != x as i128 {
                o.fail("C09/to_int/value", format!("str_to_int({}) = {}, expected {}", show_str(s), v, x));
            }
        }
        (Some(x), Err(m)) => {
            if x <= i32::MAX as u128 {
                o.fail("C09/to_int/panics-on-small", format!("str_to_int({}) panicked ({}) but the value {} fits", show_str(s), m, x));
            }
        }
    }
}

pub fn check_int(n: i32, o: &mut Outcome) {
    o.evals += 3;
    let got = str_from_int(n);
    let exp = r7::from_int(n as i64);
    if got.as_ref() != &exp[..] {
        o.fail("C09/from_int", format!("str_from_int({}) = {}", n, show_str(got.as_ref())));
    }
    if n >= 0 {
        match catch(|| str_to_int(&got)) {
            Ok(v) if v == n => {}
            Ok(v) => o.fail("C09/int-roundtrip", format!("str_to_int(str_from_int({})) = {}", n, v)),
            Err(m) => o.fail("C09/int-roundtrip", format!("str_to_int(str_from_int({})) panicked: {}", n, m)),
        }
    }
    // from_code
    let got = str_from_code(n);
    let exp: Vec<u32> = if n >= 0 && n as u32 <= r7::MAX_CHAR { vec![n as u32] } else { vec![] };
    if got.as_ref() != &exp[..] {
        o.fail("C09/from_code", format!("str_from_code({}) = {}", n, show_str(got.as_ref())));
    }
    if n >= 0 && n as u32 <= r7::MAX_CHAR && str_to_code(&got) != n {
        o.fail("C09/code-roundtrip", format!("str_to_code(str_from_code({})) = {}", n, str_to_code(&got)));
    }
}

pub fn check_code(s: &[u32], o: &mut Outcome) {
    o.evals += 2;
    let cs = smt(s);
    let exp = if s.len() == 1 { s[0] as i32 } else { -1 };
    if str_to_code(&cs) != exp {
        o.fail("C09/to_code", format!("str_to_code({}) = {}", show_str(s), str_to_code(&cs)));
    }
    let expd = s.len() == 1 && r7::is_digit_char(s[0]);
    if str_is_digit(&cs) != expd {
        o.fail("C09/is_digit", format!("str_is_digit({}) = {}", show_str(s), str_is_digit(&cs)));
    }
}

fn gen_digits(t: &mut Tape) -> Vec<u32> {
    let d = |s: &str| -> Vec<u32> { s.chars().map(|c| c as u32).collect() };
    let mut v: Vec<u32> = match t.weighted(&[3, 4, 3, 2]) {
        0 => {
            let n = t.choose(26);
            (0..n).map(|_| 0x30 + t.choose(10) as u32).collect()
        }
        1 => {
            // clustered around 2^31 and 2^32 and powers of ten
            let base: u64 = t.pick(&[2147483647u64, 2147483648, 2147483646, 4294967295, 4294967296, 5000000000, 21474836470, 21474836480, 1000000000, 10000000000, 999999999, 9999999999, 4294967297 + 2147483647, 8589934592, 6442450944, 12884901888]);
            let delta = t.u32_in(0, 20) as u64;
            let v = if t.flag() { base + delta } else { base.saturating_sub(delta) };
            d(&v.to_string())
        }
        2 => {
            let v = t.u32_in(0, u32::MAX) as u64 * if t.flag() { 1 } else { 3 };
            d(&v.to_string())
        }
        _ => {
            // long strings of 9s / huge values
            let n = 9 + t.choose(20);
            (0..n).map(|_| 0x30 + t.pick(&[9u32, 9, 9, 0, 1, 4])).collect()
        }
    };
    // leading zeros
    let z = match t.weighted(&[5, 2, 1]) {
        0 => 0,
        1 => 1 + t.choose(3),
        _ => 12,
    };
    let mut out = vec![0x30; z];
    out.append(&mut v);
    out
}

pub fn run(tape: &[u8], cx: &Cx) -> Outcome {
    let mut t = Tape::new(tape);
    // a, b, c, the ends of the alphabet, characters that agree with 'a' on their low 8 / 16 bits, and the
    // code points around which other orders differ from the numeric one (UTF-16 code units, Rust `char`s
    // with U+FFFD substituted for surrogates): 0xD800, 0xDFFF, 0xE000, 0xFFFD, 0xFFFF, 0x10000
    let alpha: [u32; 13] = [0x61, 0x62, 0x63, 0, 0x2FFFF, 0x161, 0x10061, 0xD800, 0xDFFF, 0xE000, 0xFFFD, 0xFFFF, 0x10000];
    // strings sharing a common prefix
    let plen = t.choose(7);
    let prefix: Vec<u32> = (0..plen).map(|_| alpha[t.weighted(&[10, 8, 4, 2, 2, 1, 1, 1, 1, 1, 1, 1, 1])]).collect();
    let mk = |t: &mut Tape| -> Vec<u32> {
        let mut v = if t.bool_p(200) { prefix.clone() } else { vec![] };
        let n = t.choose(4);
        for _ in 0..n {
            v.push(alpha[t.weighted(&[10, 8, 4, 2, 2, 1, 1, 1, 1, 1, 1, 1, 1])]);
        }
        v
    };
    let (mut a, mut b, mut c) = (mk(&mut t), mk(&mut t), mk(&mut t));
    // a fifth of the cases: long strings (block-wise comparison code paths) that agree on a long
    // prefix and differ by one edit
    if t.bool_p(50) {
        // lengths 12..140, a third of them next to a block size (word-wise / SIMD-width comparison loops)
        let mut len = 12 + t.choose(129);
        if t.bool_p(85) {
            len = t.pick(&[15usize, 16, 17, 31, 32, 33, 63, 64, 65, 127, 128, 129]);
        }
        let base: Vec<u32> = (0..len).map(|_| alpha[t.weighted(&[10, 8, 4, 2, 2, 1, 1, 1, 1, 1, 1, 1, 1])]).collect();
        let edit = |t: &mut Tape, base: &Vec<u32>| -> Vec<u32> {
            let mut v = base.clone();
            match t.choose(5) {
                0 => {}
                1 => {
                    let k = t.choose(v.len() + 1);
                    v.truncate(k);
                }
                2 => {
                    let k = t.choose(v.len());
                    v[k] = alpha[t.choose(13)];
                }
                3 => {
                    let n = 1 + t.choose(20);
                    for _ in 0..n {
                        v.push(alpha[t.choose(3)]);
                    }
                }
                _ => {
                    let k = t.choose(v.len());
                    v.remove(k);
                }
            }
            v
        };
        a = edit(&mut t, &base);
        b = edit(&mut t, &base);
        c = edit(&mut t, &base);
    }
    // digit strings
    let digits = gen_digits(&mut t);
    // a non-digit at a random position (possibly after an overflowing prefix)
    let mut dirty = gen_digits(&mut t);
    let pos = t.choose(dirty.len() + 1);
    let bad = t.pick(&[0x61u32, 0x2F, 0x3A, 0x20, 0x2D, 0x2B, 0x660, 0xFF10, 0]);
    dirty.insert(pos, bad);
    // integers
    let n: i32 = match t.weighted(&[3, 3, 2]) {
        0 => t.pick(&[0, 1, -1, 9, 10, 0x2FFFF, 0x30000, 0x2FFFE, i32::MAX, i32::MAX - 1, i32::MIN, 1000000000, 999999999]),
        1 => t.u32_in(0, i32::MAX as u32) as i32,
        _ => t.u32_in(0, u32::MAX) as i32,
    };
    let mut o = Outcome::default();
    o.digest = fnv(format!("{:?}{:?}{:?}{:?}{:?}{}", a, b, c, digits, dirty, n).as_bytes());
    if cx.render {
        o.render = format!("order on {} {} {}; to_int on {} and {}; from_int/from_code on {}", show_str(&a), show_str(&b), show_str(&c), show_str(&digits), show_str(&dirty), n);
    }
    check_order(&a, &b, &c, &mut o);
    check_to_int(&digits, &mut o);
    check_to_int(&dirty, &mut o);
    check_to_int(&a, &mut o);
    check_int(n, &mut o);
    check_code(&a, &mut o);
    check_code(&digits[..digits.len().min(1)], &mut o);
    check_code(&digits, &mut o);
    check_code(&dirty, &mut o);
    let big = r7::to_int(&digits).map_or(false, |v| v >= (1u128 << 31));
    let dirty_big = r7::to_int(&dirty[..pos]).map_or(false, |v| v >= (1u128 << 31));
    let common = a.iter().zip(b.iter()).take_while(|(x, y)| x == y).count();
    o.nontrivial = big || dirty_big || (common >= 1 && a != b);
    if a.len().max(b.len()) >= 16 {
        o.tag("strings>=16-chars");
    }
    if big {
        o.tag("digits>=2^31");
    }
    if dirty_big {
        o.tag("non-digit-after-overflowing-prefix");
    }
    if r7::to_int(&digits).map_or(false, |v| v >= (1u128 << 32)) {
        o.tag("digits>=2^32");
    }
    o
}

/// exhaustive: every code point for the code round trip; every digit string of length <= 5 (6);
/// every value in a window around 2^31 and 2^32 and their multiples of ten
pub fn enumerate(thorough: bool, part: usize, parts: usize, sink: &mut EnumSink) {
    let mut x = part as u32;
    while x <= r7::MAX_CHAR + 16 {
        let mut o = Outcome::default();
        check_int(x as i32, &mut o);
        check_code(&[x.min(r7::MAX_CHAR)], &mut o);
        sink.case(&o, true, || format!("code point {:#x}", x));
        x += parts as u32;
    }
    // order: every triple of strings of length <= 2 over the code points where other orders (UTF-16 code
    // units, Rust chars with U+FFFD for surrogates, truncated characters) differ from the numeric one
    {
        let seam: [u32; 10] = [0, 0x61, 0x161, 0xD800, 0xDFFF, 0xE000, 0xFFFD, 0xFFFF, 0x10000, r7::MAX_CHAR];
        let mut words: Vec<Vec<u32>> = vec![vec![]];
        for &a in &seam {
            words.push(vec![a]);
            for &b in &seam {
                words.push(vec![a, b]);
            }
        }
        for (i, a) in words.iter().enumerate() {
            if i % parts != part {
                continue;
            }
            for b in &words {
                let mut o = Outcome::default();
                // the third string varies over the one-character words only (transitivity through them)
                for c in words.iter().take(1 + seam.len()) {
                    check_order(a, b, c, &mut o);
                }
                sink.case(&o, a != b && !a.is_empty() && !b.is_empty() && a[0] == b[0], || format!("order on {} {}", show_str(a), show_str(b)));
            }
            if sink.failed() {
                return;
            }
        }
        if part == 0 {
            sink.stats.exhaustive_spaces.push("str_lt / str_le on all pairs of strings of length <= 2 over {0, a, 0x161, 0xD800, 0xDFFF, 0xE000, 0xFFFD, 0xFFFF, 0x10000, MAX} (with every third string of length <= 1)".to_string());
        }
    }
    // very long strings that agree on a long prefix (comparison loops written recursively, block-wise or
    // with 16-bit indices), on a user-sized stack
    if part == parts - 1 {
        for &len in &[70_000usize, 2_000_000] {
            let mut o = Outcome::default();
            let base: Vec<u32> = (0..len).map(|i| 0x61 + (i % 3) as u32).collect();
            let mut longer = base.clone();
            longer.push(0);
            let mut bigger = base.clone();
            *bigger.last_mut().unwrap() = 0x2FFFF;
            let (sa, sl, sb) = (smt(&base), smt(&longer), smt(&bigger));
            let got = crate::runner::on_user_stack(|| crate::runner::catch(|| [str_lt(&sa, &sa), str_le(&sa, &sa), str_lt(&sa, &sl), str_le(&sl, &sa), str_lt(&sa, &sb), str_lt(&sb, &sa), str_le(&sb, &sl), str_lt(&sl, &sb)]));
            o.evals += 8;
            match got {
                Ok(v) => {
                    if v != [false, true, true, false, true, false, false, true] {
                        o.fail("C09/str_lt", format!("strings of {} characters with a common prefix of {}: [s<s, s<=s, s<s.0, s.0<=s, s<t, t<s, t<=s.0, s.0<t] = {:?}", len, len - 1, v));
                    }
                }
                Err(msg) => o.fail("C09/panics", format!("comparison of strings of {} characters panicked: {}", len, msg)),
            }
            sink.case(&o, true, || format!("order on strings of {} characters with a common prefix", len));
        }
        sink.stats.exhaustive_spaces.push("str_lt / str_le on strings of 70 000 and 2 000 000 characters that are equal, differ in the last character, or are a proper prefix of each other".to_string());
    }
    // windows of values around the i32 / u32 boundaries, with 0..2 leading zeros and a trailing digit
    let centers: [u64; 8] = [2147483647, 4294967296, 21474836470, 42949672960, 6442450944, 8589934592, 214748364700, 10000000000];
    let w: u64 = if thorough { 20000 } else { 2000 };
    for (ci, &c) in centers.iter().enumerate() {
        if ci % parts != part {
            continue;
        }
        for v in (c - w)..=(c + w) {
            for z in 0..2 {
                let mut s: Vec<u32> = vec![0x30; z];
                s.extend(v.to_string().chars().map(|ch| ch as u32));
                let mut o = Outcome::default();
                check_to_int(&s, &mut o);
                let mut dirty = s.clone();
                dirty.push(0x61);
                check_to_int(&dirty, &mut o);
                sink.case(&o, v >= (1 << 31), || format!("digit string {}", show_str(&s)));
            }
        }
        if sink.failed() {
            return;
        }
    }
    // all digit strings of length <= 5 plus one non-digit symbol
    if part == 0 {
        let syms: [u32; 11] = [0x30, 0x31, 0x32, 0x33, 0x34, 0x35, 0x36, 0x37, 0x38, 0x39, 0x61];
        let max_len = if thorough { 6 } else { 5 };
        let mut cur: Vec<usize> = vec![];
        loop {
            let s: Vec<u32> = cur.iter().map(|&i| syms[i]).collect();
            let mut o = Outcome::default();
            check_to_int(&s, &mut o);
            sink.case(&o, false, || format!("string {}", show_str(&s)));
            // next
            let mut k = cur.len();
            loop {
                if k == 0 {
                    cur = vec![0; cur.len() + 1];
                    break;
                }
                k -= 1;
                if cur[k] + 1 < syms.len() {
                    cur[k] += 1;
                    for j in k + 1..cur.len() {
                        cur[j] = 0;
                    }
                    break;
                }
            }
            if cur.len() > max_len {
                break;
            }
        }
        sink.stats.exhaustive_spaces.push(format!(
            "every integer in [0, 0x2FFFF+16] for from_code/to_code/from_int round trips; every decimal value within {} of 8 centres around 2^31, 2^32 and their multiples (with leading zeros and with a trailing non-digit); every string over 0-9,a of length <= {}",
            w, max_len
        ));
        sink.stats.samples.push("[enum] digit string \"2147483648\" and \"2147483648a\" (must panic / must be -1)".to_string());
    }
}
