//! C05 — emptiness test and witness generation are exact.
//! C18 — start_char / start_class tell exactly whether a member string starts with c.
//! C19 — derivative closure is enumerated exactly; try_compile honours its state bound.
//! (three properties sharing the same generator, biased to semantically empty sub-terms)

use crate::atoms::{show_char, show_str};
use crate::bisim::{deriv_closure, probe_chars, ptr};
use crate::p_c03::class_ranges;
use crate::prog::{render_ins, Ins, Prog, ProgCfg};
use crate::rdfa::Dfa;
use crate::runner::{catch, Cx, Outcome};
use crate::rx::{self, RxCase};
use crate::tape::{fnv, Tape};
use aws_smt_strings::character_sets::ClassId;
use aws_smt_strings::errors::Error;
use std::collections::HashSet;

pub fn cfg() -> ProgCfg {
    ProgCfg { max_ins: 10, empties: true, ..ProgCfg::default() }
}

struct Common {
    case: RxCase,
    dfas: Vec<Dfa>,
    o: Outcome,
}

fn common(tape: &[u8], id: &str, cfg: &ProgCfg, cx: &Cx) -> Result<(Common, Vec<u8>), Outcome> {
    let (ta, tb) = tape.split_at(tape.len() / 4);
    let mut tp = Tape::new(tb);
    // a sixth of the programs are C16's pattern pairs (concatenations of ranges and Sigma* with a derived
    // near-included sibling, their union, wrappers): the shapes on which union pruning acts
    let prog = if tp.bool_p(40) { crate::p_c16::gen_pair(&mut tp).0 } else { Prog::decode(&mut tp, &cfg.clone().scaled(cx.thorough)) };
    let mut o = Outcome::default();
    o.digest = fnv(&prog.digest_bytes());
    let mut case = match rx::setup(prog.clone()) {
        Ok(c) => c,
        Err(reason) => {
            if let Some(msg) = reason.strip_prefix("PANIC:") {
                o.render = prog.render();
                o.fail(&format!("{}/constructor-panics", id), format!("constructing the program panicked: {}", msg));
                return Err(o);
            }
            return Err(Outcome::discarded(&reason));
        }
    };
    let dfas = match case.dfas.take() {
        Some(d) => d,
        None => return Err(Outcome::discarded("reference DFA too big")),
    };
    Ok((Common { case, dfas, o }, ta.to_vec()))
}

/// does the program contain a sub-term that is semantically but not syntactically empty?
fn has_semantic_empty(prog: &Prog, dfas: &[Dfa], terms: &[aws_smt_strings::regular_expressions::RegLan]) -> bool {
    (0..prog.ins.len()).any(|i| dfas[i].is_empty_lang() && !terms[i].is_empty() && !matches!(prog.ins[i], Ins::Empty))
}

// ---------------------------------------------------------------------------------------------
// C05
// ---------------------------------------------------------------------------------------------

pub fn run_c05(tape: &[u8], cx: &Cx) -> Outcome {
    let (Common { case, dfas, mut o }, ta) = match common(tape, "C05", &cfg(), cx) {
        Ok(x) => x,
        Err(o) => return o,
    };
    let RxCase { prog, mut mgr, terms, .. } = case;
    let mut t = Tape::new(&ta);
    let last = prog.ins.len() - 1;
    let other = t.choose(prog.ins.len());
    if cx.render {
        o.render = format!("{} ; examined slots r{} r{}", prog.render(), last, other);
    }
    let mut slots = vec![last];
    if other != last {
        slots.push(other);
    }
    for &slot in &slots {
        let e = terms[slot];
        let dfa = &dfas[slot];
        if deriv_closure(&mut mgr, &prog.atoms, e, rx::CLOSURE_CAP).is_none() {
            return Outcome::discarded("derivative closure above the cap");
        }
        let what = format!("r{} = {} (term {})", slot, render_ins(&prog.ins[slot]), e);
        let empty = dfa.is_empty_lang();
        o.evals += 2;
        let got = match catch(|| mgr.is_empty_re(e)) {
            Ok(g) => g,
            Err(msg) => {
                o.fail("C05/is_empty_re-panics", format!("{}: is_empty_re panicked: {}", what, msg));
                return o;
            }
        };
        if got != empty {
            let class = if empty { "C05/empty-language-reported-non-empty" } else { "C05/non-empty-language-reported-empty" };
            o.fail(class, format!("{}: is_empty_re = {} but the language is {}", what, got, if empty { "empty" } else { "not empty" }));
            return o;
        }
        let wit = match catch(|| mgr.get_string(e)) {
            Ok(w) => w,
            Err(msg) => {
                o.fail("C05/get_string-panics", format!("{}: get_string panicked: {}", what, msg));
                return o;
            }
        };
        match wit {
            None => {
                if !empty {
                    o.fail("C05/no-witness-for-non-empty-language", format!("{}: get_string = None but the language contains {:?}", what, dfa.shortest_word()));
                    return o;
                }
            }
            Some(w) => {
                let ws: Vec<u32> = w.as_ref().to_vec();
                if empty {
                    o.fail("C05/witness-for-empty-language", format!("{}: get_string = {} but the language is empty", what, show_str(&ws)));
                    return o;
                }
                if !w.is_good() {
                    o.fail("C05/witness-not-well-formed", format!("{}: witness {} is not a well-formed SMT string", what, show_str(&ws)));
                    return o;
                }
                o.evals += 3;
                let in_ref = prog.member(slot, &ws);
                let in_crate = mgr.str_in_re(&w, e);
                if !in_ref || !in_crate {
                    o.fail("C05/witness-not-a-member", format!("{}: witness {} — SMT-LIB membership {}, str_in_re {}", what, show_str(&ws), in_ref, in_crate));
                    return o;
                }
                match catch(|| mgr.compile(e).accepts(&w)) {
                    Ok(true) => {}
                    Ok(false) => {
                        o.fail("C05/witness-rejected-by-automaton", format!("{}: compile(e) rejects the witness {}", what, show_str(&ws)));
                        return o;
                    }
                    Err(msg) => {
                        o.fail("C05/compile-panics", format!("{}: compile/accepts panicked: {}", what, msg));
                        return o;
                    }
                }
                if slot == last && ws.len() >= 2 {
                    o.nontrivial = true;
                    o.tag("witness-length>=2");
                }
            }
        }
        if slot == last && empty && !e.is_empty() {
            o.nontrivial = true;
            o.tag("semantically-empty-final-term");
        }
        // the same questions about the derivatives of e, on the same (now warm) manager: each is an
        // expression in its own right, and its language is the reference quotient
        if slot == last {
            let live = dfa.live_states();
            let pairs = crate::bisim::reachable_pairs(&mut mgr, &prog.atoms, dfa, dfa.start, e, 24);
            for (q, d) in pairs.into_iter().skip(1) {
                o.evals += 2;
                let dead = !live[q as usize];
                let mut witness: Option<Vec<u32>> = None;
                let got = match catch(|| {
                    let w = mgr.get_string(d);
                    let none = w.is_none();
                    witness = w.map(|x| x.as_ref().to_vec());
                    (mgr.is_empty_re(d), none)
                }) {
                    Ok(g) => g,
                    Err(msg) => {
                        o.fail("C05/is_empty_re-panics", format!("{}: emptiness test of the derivative {} panicked: {}", what, d, msg));
                        return o;
                    }
                };
                if got.0 != dead || got.1 != dead {
                    let class = if dead { "C05/empty-language-reported-non-empty" } else { "C05/non-empty-language-reported-empty" };
                    o.fail(class, format!("{}: for its derivative {} is_empty_re = {} and get_string is {} but that language is {}", what, d, got.0, if got.1 { "None" } else { "Some" }, if dead { "empty" } else { "not empty" }));
                    return o;
                }
                // the witness of a derivative is a member of that derivative's language
                if let Some(w) = witness {
                    let mut qq = q;
                    let in_alphabet = w.iter().all(|&c| c <= crate::atoms::MAX);
                    if in_alphabet {
                        for &c in &w {
                            qq = dfa.step(qq, prog.atoms.atom_of(c));
                        }
                    }
                    if !in_alphabet || !dfa.is_final(qq) {
                        o.fail("C05/witness-not-a-member", format!("{}: get_string of its derivative {} = {} is not in that derivative's language", what, d, show_str(&w)));
                        return o;
                    }
                }
            }
            o.tag("derivative-terms-queried");
        }
    }
    if has_semantic_empty(&prog, &dfas, &terms) {
        o.tag("semantically-empty-subterm");
    }
    if dfas[last].is_empty_lang() {
        o.tag("empty-language");
    }
    o
}

// ---------------------------------------------------------------------------------------------
// C18
// ---------------------------------------------------------------------------------------------

pub fn run_c18(tape: &[u8], cx: &Cx) -> Outcome {
    let (Common { case, dfas, mut o }, ta) = match common(tape, "C18", &cfg(), cx) {
        Ok(x) => x,
        Err(o) => return o,
    };
    let RxCase { prog, mut mgr, terms, .. } = case;
    let mut t = Tape::new(&ta);
    let last = prog.ins.len() - 1;
    let other = t.choose(prog.ins.len());
    if cx.render {
        o.render = format!("{} ; examined slots r{} r{}", prog.render(), last, other);
    }
    let mut slots = vec![last];
    if other != last {
        slots.push(other);
    }
    let mut saw_true = false;
    let mut saw_false = false;
    for &slot in &slots {
        let e = terms[slot];
        let dfa = &dfas[slot];
        if deriv_closure(&mut mgr, &prog.atoms, e, rx::CLOSURE_CAP).is_none() {
            return Outcome::discarded("derivative closure above the cap");
        }
        let live = dfa.live_states();
        let what = format!("r{} = {} (term {})", slot, render_ins(&prog.ins[slot]), e);
        let ranges = class_ranges(e);
        let class_of = |c: u32| -> ClassId {
            for (i, &(a, b)) in ranges.iter().enumerate() {
                if a <= c && c <= b {
                    return ClassId::Interval(i);
                }
            }
            ClassId::Complement
        };
        for c in probe_chars(&prog.atoms, e) {
            o.evals += 2;
            let exp = live[dfa.step(dfa.start, prog.atoms.atom_of(c)) as usize];
            if slot == last {
                if exp {
                    saw_true = true;
                } else {
                    saw_false = true;
                }
            }
            let got = match catch(|| mgr.start_char(e, c)) {
                Ok(g) => g,
                Err(msg) => {
                    o.fail("C18/start_char-panics", format!("{}: start_char({}) panicked: {}", what, show_char(c), msg));
                    return o;
                }
            };
            if got != exp {
                let class = if got { "C18/start_char-true-but-no-member-starts-with-c" } else { "C18/start_char-false-but-a-member-starts-with-c" };
                o.fail(class, format!("{}: start_char({}) = {} but {} member string starts with that character", what, show_char(c), got, if exp { "some" } else { "no" }));
                return o;
            }
            // start_class must give that answer for every character of the class
            let cid = class_of(c);
            match catch(|| mgr.start_class(e, cid)) {
                Ok(Ok(g)) => {
                    if g != exp {
                        o.fail("C18/start_class-differs-for-a-member-of-the-class", format!("{}: start_class({}) = {} but for {} of that class the answer is {}", what, cid, g, show_char(c), exp));
                        return o;
                    }
                }
                Ok(Err(err)) => {
                    o.fail("C18/start_class-rejects-valid-class", format!("{}: start_class({}) = Err({:?})", what, cid, err));
                    return o;
                }
                Err(msg) => {
                    o.fail("C18/start_char-panics", format!("{}: start_class({}) panicked: {}", what, cid, msg));
                    return o;
                }
            }
        }
        // invalid class ids
        let n = ranges.len();
        let covered: u64 = ranges.iter().map(|&(a, b)| (b - a) as u64 + 1).sum();
        let mut bad = vec![ClassId::Interval(n), ClassId::Interval(n + 3)];
        if covered == crate::atoms::MAX as u64 + 1 {
            bad.push(ClassId::Complement);
        }
        for cid in bad {
            o.evals += 1;
            match catch(|| mgr.start_class(e, cid)) {
                Ok(Err(Error::BadClassId)) => {}
                other => {
                    o.fail("C18/invalid-class-id-accepted", format!("{}: start_class({}) = {:?}, expected Err(BadClassId)", what, cid, other));
                    return o;
                }
            }
        }
    }
    let special = prog.has(|i| matches!(i, Ins::Inter(..) | Ins::InterList(..) | Ins::Diff(..) | Ins::DiffList(..))) || has_semantic_empty(&prog, &dfas, &terms);
    o.nontrivial = special && saw_true && saw_false;
    if has_semantic_empty(&prog, &dfas, &terms) {
        o.tag("semantically-empty-subterm");
    }
    if saw_true && saw_false {
        o.tag("both-answers-occur");
    }
    o
}

// ---------------------------------------------------------------------------------------------
// C19
// ---------------------------------------------------------------------------------------------

pub fn run_c19(tape: &[u8], cx: &Cx) -> Outcome {
    let c = ProgCfg { max_ins: 10, ..ProgCfg::default() };
    let (Common { case, dfas: _, mut o }, ta) = match common(tape, "C19", &c, cx) {
        Ok(x) => x,
        Err(o) => return o,
    };
    let RxCase { prog, mut mgr, terms, .. } = case;
    let mut t = Tape::new(&ta);
    let last = prog.ins.len() - 1;
    let e = terms[last];
    let what = format!("r{} = {} (term {})", last, render_ins(&prog.ins[last]), e);
    // a warm manager: earlier emptiness tests, start_char queries and abandoned enumerations on
    // other slots of the same manager must not change what is enumerated for e
    let npre = t.choose(4);
    for _ in 0..npre {
        let k = t.choose(prog.ins.len());
        let x = terms[k];
        if deriv_closure(&mut mgr, &prog.atoms, x, rx::CLOSURE_CAP).is_none() {
            continue;
        }
        match t.choose(3) {
            0 => {
                let _ = catch(|| mgr.is_empty_re(x));
            }
            1 => {
                let c = prog.atoms.pick_char(&mut t);
                let _ = catch(|| mgr.start_char(x, c));
            }
            _ => {
                let n = 1 + t.choose(3);
                let _ = catch(|| mgr.iter_derivatives(x).take(n).count());
            }
        }
        o.tag("warm-manager");
    }
    // In half of the cases the enumeration (or a bounded compilation) of e is observed first, while the
    // derivatives of e do not exist yet: the reference closure below creates and caches all of them, and
    // an enumeration that only misbehaves while it creates terms itself would otherwise never be seen.
    let cold_iter: Option<Vec<usize>> = if t.bool_p(96) {
        o.tag("cold-enumeration");
        match catch(|| mgr.iter_derivatives(e).take(2 * rx::CLOSURE_CAP + 10).map(|r| r as *const _ as usize).collect::<Vec<_>>()) {
            Ok(v) => Some(v),
            Err(msg) => {
                o.fail("C19/iter_derivatives-panics", format!("{}: {}", what, msg));
                return o;
            }
        }
    } else {
        None
    };
    let cold_states: Option<Option<usize>> = if cold_iter.is_none() && t.bool_p(96) {
        o.tag("cold-compilation");
        match catch(|| mgr.try_compile(e, rx::CLOSURE_CAP).map(|a| a.num_states())) {
            Ok(v) => Some(v),
            Err(msg) => {
                o.fail("C19/compile-panics", format!("{}: try_compile on a cold manager panicked: {}", what, msg));
                return o;
            }
        }
    } else {
        None
    };
    // independent closure: BFS with char_derivative over class boundary characters
    let closure = match deriv_closure(&mut mgr, &prog.atoms, e, rx::CLOSURE_CAP) {
        Some(c) => c,
        None => return Outcome::discarded("derivative closure above the cap (termination is only observable up to a cap)"),
    };
    let n = closure.len();
    if cx.render {
        o.render = format!("{} ; {} distinct derivatives", prog.render(), n);
    }
    let mine: HashSet<usize> = closure.iter().map(|&r| ptr(r)).collect();
    // iter_derivatives: e first, no repetition, exactly the closure
    if let Some(Some(k)) = cold_states {
        if k != n {
            o.fail("C19/state-count", format!("{}: try_compile(e, {}) on a cold manager gives {} states; e has {} derivatives", what, rx::CLOSURE_CAP, k, n));
            return o;
        }
    }
    if let Some(None) = cold_states {
        o.fail("C19/try_compile-none-within-bound", format!("{}: try_compile(e, {}) on a cold manager = None; e has {} derivatives", what, rx::CLOSURE_CAP, n));
        return o;
    }
    let items: Vec<usize> = match cold_iter {
        Some(v) => v,
        None => match catch(|| mgr.iter_derivatives(e).take(n * 2 + 10).map(|r| r as *const _ as usize).collect::<Vec<_>>()) {
            Ok(v) => v,
            Err(msg) => {
                o.fail("C19/iter_derivatives-panics", format!("{}: {}", what, msg));
                return o;
            }
        },
    };
    o.evals += 4;
    if items.first() != Some(&ptr(e)) {
        o.fail("C19/first-item-is-not-e", format!("{}: iter_derivatives does not yield e first", what));
        return o;
    }
    let set: HashSet<usize> = items.iter().copied().collect();
    if set.len() != items.len() {
        o.fail("C19/item-repeated", format!("{}: iter_derivatives yields {} items but only {} distinct ones", what, items.len(), set.len()));
        return o;
    }
    if set != mine {
        let missing = mine.difference(&set).count();
        let extra = set.difference(&mine).count();
        let class = if missing > 0 { "C19/closure-incomplete" } else { "C19/closure-has-extra-items" };
        o.fail(class, format!("{}: iter_derivatives yields {} items; the closure under char_derivative has {} ({} missing, {} extra)", what, items.len(), n, missing, extra));
        return o;
    }
    // closed under char_derivative for every (probed) character: by construction of `mine`, re-checked on the yielded set
    for &r in &closure {
        for c in probe_chars(&prog.atoms, r) {
            o.evals += 1;
            let d = mgr.char_derivative(r, c);
            if !set.contains(&ptr(d)) {
                o.fail("C19/closure-incomplete", format!("{}: derivative of a yielded term by {} is not yielded", what, show_char(c)));
                return o;
            }
        }
    }
    // bounded compilations of a few derivatives of e on the same manager first (they are expressions in
    // their own right: Some exactly when their own derivative count fits), some of them failing
    let nd = t.choose(4);
    for _ in 0..nd {
        let d = closure[t.choose(closure.len())];
        let nd_count = match deriv_closure(&mut mgr, &prog.atoms, d, rx::CLOSURE_CAP) {
            Some(c) => c.len(),
            None => continue,
        };
        let b = match t.choose(4) {
            0 => 1,
            1 => 2,
            2 => nd_count.saturating_sub(1),
            _ => nd_count,
        };
        o.evals += 1;
        match catch(|| mgr.try_compile(d, b).map(|a| a.num_states())) {
            Ok(Some(states)) => {
                if nd_count > b || states != nd_count {
                    o.fail("C19/try_compile-exceeds-bound", format!("{}: for its derivative {} try_compile(., {}) returned {} states; it has {} derivatives", what, d, b, states, nd_count));
                    return o;
                }
            }
            Ok(None) => {
                if nd_count <= b {
                    o.fail("C19/try_compile-none-within-bound", format!("{}: for its derivative {} try_compile(., {}) = None although it has only {} derivatives", what, d, b, nd_count));
                    return o;
                }
            }
            Err(msg) => {
                o.fail("C19/compile-panics", format!("{}: try_compile of a derivative panicked: {}", what, msg));
                return o;
            }
        }
        o.tag("derivatives-compiled-first");
    }
    // try_compile bound
    let extra = t.u32_in(0, 2 * n as u32 + 4) as usize;
    let mut bounds: Vec<usize> = vec![0, 1, n.saturating_sub(1), n, n + 1, 2 * n, usize::MAX, extra];
    // bounds around the word-size boundaries (a bound is a usize, not a u16/u32)
    for sh in [8u32, 16, 31, 32, 33, 48, 63] {
        if (sh as usize) < usize::BITS as usize {
            let b = 1usize << sh;
            bounds.extend([b, b + n.saturating_sub(1), b + n, b - 1]);
        }
    }
    bounds.dedup();
    for b in bounds {
        o.evals += 1;
        match catch(|| mgr.try_compile(e, b).map(|a| a.num_states())) {
            Ok(Some(states)) => {
                if n > b {
                    o.fail("C19/try_compile-exceeds-bound", format!("{}: try_compile(e, {}) returned an automaton although e has {} derivatives", what, b, n));
                    return o;
                }
                if states != n {
                    o.fail("C19/state-count", format!("{}: try_compile(e, {}) has {} states, expected {}", what, b, states, n));
                    return o;
                }
            }
            Ok(None) => {
                if n <= b {
                    o.fail("C19/try_compile-none-within-bound", format!("{}: try_compile(e, {}) = None although e has only {} derivatives", what, b, n));
                    return o;
                }
            }
            Err(msg) => {
                o.fail("C19/compile-panics", format!("{}: try_compile(e, {}) panicked: {}", what, b, msg));
                return o;
            }
        }
    }
    match catch(|| mgr.compile(e).num_states()) {
        Ok(states) => {
            if states != n {
                o.fail("C19/state-count", format!("{}: compile(e) has {} states, expected {}", what, states, n));
            }
        }
        Err(msg) => o.fail("C19/compile-panics", format!("{}: compile(e) panicked: {}", what, msg)),
    }
    o.nontrivial = n >= 4;
    if n >= 10 {
        o.tag(">=10-derivatives");
    }
    if n >= 4 {
        o.tag(">=4-derivatives");
    }
    o
}


/// C19 scale cases: expressions with thousands of derivatives (work lists that release memory in blocks,
/// visited sets that grow, counters): the literal a^L has exactly L + 2 derivatives (a^k for k <= L and the
/// empty language), (ab)^L has 2L + 2.
pub fn enumerate_c19(_thorough: bool, part: usize, parts: usize, sink: &mut crate::runner::EnumSink) {
    use aws_smt_strings::regular_expressions::ReManager;
    use aws_smt_strings::smt_strings::SmtString;
    let cases: [(usize, bool); 6] = [(50, false), (4100, false), (6000, false), (20_000, false), (70_000, false), (5000, true)];
    for (k, &(len, pairs)) in cases.iter().enumerate() {
        if k % parts != part {
            continue;
        }
        let mut o = Outcome::default();
        let what = if pairs { format!("(ab)^{}", len) } else { format!("a^{}", len) };
        let res = crate::runner::on_user_stack(|| {
            catch(|| {
                let mut fails: Vec<(String, String)> = Vec::new();
                let mut m = ReManager::new();
                let word: Vec<u32> = if pairs { (0..2 * len).map(|i| if i % 2 == 0 { 0x61 } else { 0x62 }).collect() } else { vec![0x61; len] };
                let e = m.str(&SmtString::from(&word[..]));
                // the suffixes of the word and the empty language are pairwise different languages: at least
                // |w| + 2 derivatives; how many *terms* denote them is the implementation's business, so the
                // number the enumeration yields is taken as N (it must be without repetition, start with e,
                // and agree with the compilations below)
                let n_min = word.len() + 2;
                let items: Vec<usize> = m.iter_derivatives(e).take(16 * n_min + 10).map(|r| r as *const _ as usize).collect();
                let distinct: HashSet<usize> = items.iter().copied().collect();
                let n = items.len();
                if n < n_min || n > 16 * n_min || distinct.len() != n || items.first() != Some(&(e as *const _ as usize)) {
                    fails.push(("C19/closure-size".into(), format!("{}: iter_derivatives yields {} items, {} distinct; the expression has at least {} pairwise different derivatives", what, items.len(), distinct.len(), n_min)));
                    return fails;
                }
                for (b, exp_some) in [(n, true), (n - 1, false), (n + 1, true), (1, false)] {
                    match m.try_compile(e, b) {
                        Some(a) => {
                            if !exp_some {
                                fails.push(("C19/try_compile-exceeds-bound".into(), format!("{}: try_compile(e, {}) returned an automaton with {} states; e has {} derivatives", what, b, a.num_states(), n)));
                            } else if a.num_states() != n || !a.accepts(&SmtString::from(&word[..])) || a.accepts(&SmtString::from(&word[1..])) {
                                fails.push(("C19/state-count".into(), format!("{}: try_compile(e, {}) has {} states (expected {}) or the wrong language", what, b, a.num_states(), n)));
                            }
                        }
                        None => {
                            if exp_some {
                                fails.push(("C19/try_compile-none-within-bound".into(), format!("{}: try_compile(e, {}) = None although e has {} derivatives", what, b, n)));
                            }
                        }
                    }
                }
                let a = m.compile(e);
                if a.num_states() != n {
                    fails.push(("C19/state-count".into(), format!("{}: compile(e) has {} states, expected {}", what, a.num_states(), n)));
                }
                fails
            })
        });
        match res {
            Ok(fails) => {
                for (c, msg) in fails.into_iter().take(2) {
                    o.fail(&c, msg);
                }
            }
            Err(msg) => o.fail("C19/panics", format!("{}: {}", what, msg)),
        }
        o.evals += 6;
        sink.case(&o, true, || format!("scale case: {}", what));
    }
    if part == 0 {
        sink.stats.exhaustive_spaces.push("6 scale cases: the literals a^50, a^4100, a^6000, a^20000, a^70000 and (ab)^5000: number and distinctness of the enumerated derivatives, try_compile at N-1 / N / N+1 / 1, compile".to_string());
    }
}
