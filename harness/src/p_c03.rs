//! C03 — derivatives are left quotients and every derivative class is uniform.

use crate::atoms::{show_char, show_str, MAX};
use crate::bisim::{bisim_multi, probe_chars, ptr, BisimResult};
use crate::p_c11::{expected_cover, gen_query, show_iv};
use crate::prog::{render_ins, smt, Prog, ProgCfg};
use crate::runner::{Cx, Outcome};
use crate::rx::{self, sample_strings, RxCase};
use crate::tape::{fnv, Tape};
use aws_smt_strings::character_sets::{CharSet, ClassId, CoverResult};
use aws_smt_strings::errors::Error;
use aws_smt_strings::regular_expressions::RegLan;

pub fn cfg() -> ProgCfg {
    ProgCfg { max_ins: 10, ..ProgCfg::default() }
}

/// the derivative classes of e as a list of intervals (from the public iterator)
pub fn class_ranges(e: RegLan) -> Vec<(u32, u32)> {
    e.char_ranges().map(crate::bisim::bounds_of).collect()
}

fn class_of(ranges: &[(u32, u32)], c: u32) -> ClassId {
    for (i, &(a, b)) in ranges.iter().enumerate() {
        if a <= c && c <= b {
            return ClassId::Interval(i);
        }
    }
    ClassId::Complement
}

pub fn run(tape: &[u8], cx: &Cx) -> Outcome {
    let (ta, tb) = tape.split_at(tape.len() / 3);
    let mut t = Tape::new(ta);
    let mut tp = Tape::new(tb);
    let prog = Prog::decode(&mut tp, &cfg().scaled(cx.thorough));
    let mut o = Outcome::default();
    o.digest = fnv(&prog.digest_bytes());
    let RxCase { prog, mut mgr, terms, dfas } = match rx::setup(prog.clone()) {
        Ok(c) => c,
        Err(reason) => {
            if let Some(msg) = reason.strip_prefix("PANIC:") {
                o.render = prog.render();
                o.fail("C03/constructor-panics", format!("constructing the program panicked: {}", msg));
                return o;
            }
            return Outcome::discarded(&reason);
        }
    };
    let dfas = match dfas {
        Some(d) => d,
        None => return Outcome::discarded("reference DFA too big"),
    };
    // examine the final slot or (half of the time) the slot with the most derivative classes, and
    // sometimes a derived term (a derivative of it)
    let richest = (0..prog.ins.len()).max_by_key(|&i| (terms[i].num_deriv_classes(), i)).unwrap();
    let last = if t.flag() { richest } else { prog.ins.len() - 1 };
    let mut e = terms[last];
    let dfa = &dfas[last];
    let mut q0 = dfa.start;
    let mut prefix: Vec<u32> = vec![];
    let hops = t.choose(3);
    for _ in 0..hops {
        let c = prog.atoms.pick_char(&mut t);
        e = mgr.char_derivative(e, c);
        q0 = dfa.step(q0, prog.atoms.atom_of(c));
        prefix.push(c);
    }
    let ranges = class_ranges(e);
    let nq = 1 + t.choose(5);
    let queries: Vec<(u32, u32)> = (0..nq).map(|_| gen_query(&mut t, &ranges)).collect();
    let strings = sample_strings(&mut t, &prog.atoms, None, 3, 5);
    if cx.render {
        o.render = format!(
            "{} ; e = derivative of r{} by {} = {} ; classes {} ; query sets {} ; strings {}",
            prog.render(),
            last,
            show_str(&prefix),
            e,
            ranges.iter().map(|&r| show_iv(r)).collect::<Vec<_>>().join(" "),
            queries.iter().map(|&q| show_iv(q)).collect::<Vec<_>>().join(" "),
            strings.iter().map(|s| show_str(s)).collect::<Vec<_>>().join(" ")
        );
    }
    let what = format!("e = deriv(r{} = {}, {})", last, render_ins(&prog.ins[last]), show_str(&prefix));

    // (d) the class ids cover the alphabet: ranges well-formed, Complement listed iff something is uncovered
    let mut prev_end: Option<u32> = None;
    let mut covered: u64 = 0;
    for &(a, b) in &ranges {
        if a > b || b > MAX || prev_end.map_or(false, |p| a <= p) {
            o.fail("C03/classes-malformed", format!("{}: derivative classes are not sorted/disjoint", what));
            return o;
        }
        prev_end = Some(b);
        covered += (b - a) as u64 + 1;
    }
    let comp_nonempty = covered < MAX as u64 + 1;
    let ids: Vec<ClassId> = e.class_ids().collect();
    let mut exp_ids: Vec<ClassId> = (0..ranges.len()).map(ClassId::Interval).collect();
    if comp_nonempty {
        exp_ids.push(ClassId::Complement);
    }
    o.evals += 1;
    {
        let key = |c: &ClassId| match c {
            ClassId::Interval(i) => *i,
            ClassId::Complement => usize::MAX,
        };
        let mut sorted = ids.clone();
        sorted.sort_by_key(key);
        if sorted != exp_ids {
            o.fail("C03/class-ids-do-not-cover", format!("{}: class_ids() = {:?} but the classes are {:?} (complement {})", what, ids, ranges, if comp_nonempty { "non-empty" } else { "empty" }));
            return o;
        }
    }

    // (a)+(c): for every probed character c: char_derivative(e,c) and class_derivative(e, class(c))
    // both denote the left quotient c^-1 L(e)  (exact, by bisimulation against the reference)
    let chars = probe_chars(&prog.atoms, e);
    let mut roots: Vec<(u32, RegLan, Vec<u32>)> = Vec::new();
    for &c in &chars {
        o.evals += 2;
        let q = dfa.step(q0, prog.atoms.atom_of(c));
        let d = mgr.char_derivative(e, c);
        let mut w = prefix.clone();
        w.push(c);
        roots.push((q, d, w.clone()));
        let cid = class_of(&ranges, c);
        match mgr.class_derivative(e, cid) {
            Ok(dc) => {
                if ptr(dc) != ptr(d) {
                    o.tag("class-derivative-differs-syntactically");
                }
                roots.push((q, dc, w.clone()));
                // the unchecked variant on a valid class id: the same left quotient
                match crate::runner::catch(std::panic::AssertUnwindSafe(|| mgr.class_derivative_unchecked(e, cid))) {
                    Ok(du) => roots.push((q, du, w)),
                    Err(msg) => {
                        o.fail("C03/valid-class-rejected", format!("{}: class_derivative_unchecked(e, {}) panicked for the class of {}: {}", what, cid, show_char(c), msg));
                        return o;
                    }
                }
            }
            Err(err) => {
                o.fail("C03/valid-class-rejected", format!("{}: class_derivative(e, {}) = Err({:?}) for the class of {}", what, cid, err, show_char(c)));
                return o;
            }
        }
    }
    match bisim_multi(&mut mgr, &prog.atoms, dfa, &roots, 1500) {
        BisimResult::Equal(pairs, calls) => {
            o.evals += (pairs + calls) as u64;
        }
        BisimResult::Differ { word, crate_says, reference_says } => {
            o.fail(
                "C03/derivative-is-not-the-left-quotient",
                format!("{} (term {}): after the derivatives along {} the crate says nullable = {} but membership of that string in r{} is {}", what, e, show_str(&word), crate_says, last, reference_says),
            );
            return o;
        }
        BisimResult::Capped => {
            o.tag("bisim-capped");
        }
    }

    // (b) str_derivative composes char_derivative
    for s in &strings {
        o.evals += 1;
        let d1 = mgr.str_derivative(e, &smt(s));
        let mut d2 = e;
        let mut q = q0;
        for &c in s {
            d2 = mgr.char_derivative(d2, c);
            q = dfa.step(q, prog.atoms.atom_of(c));
        }
        if ptr(d1) != ptr(d2) {
            // not required to be the same term, only the same language (checked next)
            o.tag("str-derivative-differs-syntactically-from-fold");
        }
        // str_derivative(e, s) must denote s^-1 L(e): exact comparison with the reference state after s
        let mut w = prefix.clone();
        w.extend(s);
        let res = bisim_multi(&mut mgr, &prog.atoms, dfa, &[(q, d1, w.clone()), (q, d2, w)], 1500);
        if matches!(res, BisimResult::Capped) {
            o.tag("bisim-capped");
        }
        if let BisimResult::Differ { word, crate_says, reference_says } = res {
            o.fail(
                "C03/str-derivative-not-composition",
                format!("{}: str_derivative(e, {}) = {} (fold of char_derivative: {}): membership of {} is {} but must be {}", what, show_str(s), d1, d2, show_str(&word), crate_says, reference_says),
            );
            return o;
        }
    }

    // (e) invalid class ids
    let n = ranges.len();
    let mut bad: Vec<ClassId> = vec![ClassId::Interval(n), ClassId::Interval(n + 1 + t.choose(5)), ClassId::Interval(usize::MAX)];
    if !comp_nonempty {
        bad.push(ClassId::Complement);
    }
    for cid in bad {
        o.evals += 1;
        match mgr.class_derivative(e, cid) {
            Err(Error::BadClassId) => {}
            other => {
                o.fail("C03/invalid-class-id-accepted", format!("{}: class_derivative(e, {}) = {:?}, expected Err(BadClassId)", what, cid, other.map(|r| r.to_string())));
                return o;
            }
        }
    }

    // (f) set_derivative
    let mut straddles = false;
    for &(a, b) in &queries {
        o.evals += 1;
        let exp = expected_cover(&ranges, (a, b));
        let got = mgr.set_derivative(e, &CharSet::range(a, b));
        match exp {
            CoverResult::Overlaps => {
                straddles = true;
                if let Ok(d) = got {
                    o.fail("C03/set-derivative-of-straddling-set", format!("{}: set_derivative(e, {}) = Ok({}) although the set meets more than one derivative class {:?}", what, show_iv((a, b)), d, ranges));
                    return o;
                }
            }
            _ => match got {
                Err(err) => {
                    o.fail("C03/set-derivative-rejects-good-set", format!("{}: set_derivative(e, {}) = Err({:?}) although the set lies inside one class", what, show_iv((a, b)), err));
                    return o;
                }
                Ok(d) => {
                    // the common derivative: compare with the quotient at both ends of the set
                    let mut roots = Vec::new();
                    for c in [a, b] {
                        let mut w = prefix.clone();
                        w.push(c);
                        roots.push((dfa.step(q0, prog.atoms.atom_of(c)), d, w));
                    }
                    let res = bisim_multi(&mut mgr, &prog.atoms, dfa, &roots, 1500);
                    if matches!(res, BisimResult::Capped) {
                        o.tag("bisim-capped");
                    }
                    if let BisimResult::Differ { word, .. } = res {
                        o.fail("C03/set-derivative-wrong", format!("{}: set_derivative(e, {}) = {} is not the quotient (differs on {})", what, show_iv((a, b)), d, show_str(&word)));
                        return o;
                    }
                }
            },
        }
    }
    // the built-in constants (empty / full, epsilon / Sigma+ are complement partners): after each has been
    // differentiated on this manager, class ids that are invalid for a constant are still rejected
    {
        let consts = [("empty", mgr.empty()), ("full", mgr.full()), ("epsilon", mgr.epsilon()), ("sigma_plus", mgr.sigma_plus())];
        for (_, k) in consts.iter() {
            let _ = mgr.char_derivative(*k, 0x61);
            for cid in k.class_ids().collect::<Vec<_>>() {
                let _ = mgr.class_derivative(*k, cid);
            }
        }
        for (name, k) in consts.iter() {
            let nk = k.char_ranges().count();
            let mut bad = vec![ClassId::Interval(nk), ClassId::Interval(nk + 3)];
            if !k.class_ids().any(|c| c == ClassId::Complement) {
                bad.push(ClassId::Complement);
            }
            for cid in bad {
                o.evals += 1;
                match mgr.class_derivative(*k, cid) {
                    Err(Error::BadClassId) => {}
                    other => {
                        o.fail("C03/invalid-class-id-accepted", format!("class_derivative({}, {}) = {:?} after the constants were differentiated on this manager, expected Err(BadClassId)", name, cid, other.map(|r| r.to_string())));
                        return o;
                    }
                }
            }
        }
    }
    o.nontrivial = ranges.len() + comp_nonempty as usize >= 2 && straddles;
    if straddles {
        o.tag("query-straddles-classes");
    }
    if ranges.len() >= 3 {
        o.tag(">=3-intervals");
    }
    if hops > 0 {
        o.tag("derived-term");
    }
    if !comp_nonempty {
        o.tag("no-complement-class");
    }
    o
}
