//! Shared set-up for the regular-expression properties: decode a program, build it on a fresh
//! manager, compute the reference DFAs, sample strings.

use crate::atoms::Atoms;
use crate::prog::{Prog, ProgCfg};
use crate::rdfa::Dfa;
use crate::runner::catch;
use crate::tape::Tape;
use aws_smt_strings::regular_expressions::{ReManager, RegLan};

pub struct RxCase {
    pub prog: Prog,
    pub mgr: ReManager,
    pub terms: Vec<RegLan>,
    /// reference DFA of every slot (None when a loop bound is too large or a DFA exceeded the cap)
    pub dfas: Option<Vec<Dfa>>,
}

pub const EXACT_BOUND: u32 = 6;
pub const CLOSURE_CAP: usize = 400;

/// Is this panic the documented reaction to loop-range arithmetic overflow ("the code will panic in
/// case of arithmetic overflow")? The wording of the message is not part of the contract: the panic is
/// recognised by its origin (loop_ranges.rs) or the word "overflow", and only when the program contains
/// a loop bound large enough for a u32 product or sum to overflow at all (bounds below 16 cannot, with
/// at most 16 instructions) — otherwise a panic in the constructors is a failure, not a discard.
pub fn is_overflow(msg: &str, max_loop_bound: u32) -> bool {
    max_loop_bound >= 16 && (msg.to_lowercase().contains("overflow") || msg.contains("loop_ranges.rs"))
}

/// Build the program on a fresh manager. Err(reason) = counted discard (documented overflow panic).
pub fn setup(prog: Prog) -> Result<RxCase, String> {
    let mut mgr = ReManager::new();
    let terms = match catch(|| prog.build(&mut mgr)) {
        Ok(t) => t,
        Err(msg) => {
            if is_overflow(&msg, prog.max_loop_bound()) {
                return Err("loop-range arithmetic overflow (documented panic)".into());
            }
            // any other panic while constructing is a finding of the calling property
            return Err(format!("PANIC:{}", msg));
        }
    };
    let dfas = if prog.max_loop_bound() <= EXACT_BOUND { prog.dfas().ok() } else { None };
    Ok(RxCase { prog, mgr, terms, dfas })
}

pub fn decode_and_setup(t: &mut Tape, cfg: &ProgCfg) -> Result<RxCase, String> {
    let prog = Prog::decode(t, cfg);
    setup(prog)
}

/// concrete character for an atom, chosen by the tape among its representatives
pub fn concretize(t: &mut Tape, atoms: &Atoms, atom: usize) -> u32 {
    let r = atoms.reps_of(atom);
    r[t.choose(r.len())]
}

/// strings to test membership with: random ones over atom representatives, and — when a reference
/// DFA is available — random walks completed to an accepted word, so that members are frequent
pub fn sample_strings(t: &mut Tape, atoms: &Atoms, dfa: Option<&Dfa>, count: usize, max_len: usize) -> Vec<Vec<u32>> {
    let mut out: Vec<Vec<u32>> = vec![vec![]];
    let k = atoms.len();
    for _ in 0..count {
        let len = t.choose(max_len + 1);
        let from_ref = dfa.is_some() && t.flag();
        if !from_ref {
            out.push((0..len).map(|_| atoms.pick_char(t)).collect());
            continue;
        }
        let d = dfa.unwrap();
        let live = d.live_states();
        let mut q = d.start;
        let mut w: Vec<u32> = Vec::new();
        for _ in 0..len {
            // prefer letters that keep the state live
            let mut x = t.choose(k);
            if !live[d.step(q, x) as usize] {
                for dx in 1..k {
                    let y = (x + dx) % k;
                    if live[d.step(q, y) as usize] {
                        x = y;
                        break;
                    }
                }
            }
            w.push(concretize(t, atoms, x));
            q = d.step(q, x);
        }
        // complete to an accepted word if possible (shortest completion)
        if live[q as usize] && !d.is_final(q) {
            let sub = Dfa { k: d.k, trans: d.trans.clone(), fin: d.fin.clone(), start: q };
            if let Some(tail) = sub.shortest_word() {
                if w.len() + tail.len() <= max_len + 4 {
                    for x in tail {
                        w.push(concretize(t, atoms, x));
                    }
                }
            }
        }
        out.push(w);
    }
    out
}
