//! Case outcome type, statistics, and the engines that drive a property function
//! (proptest chunks, replay, enumeration helpers).

use crate::tape::{fnv, hex};
use proptest::collection::vec as pvec;
use proptest::prelude::*;
use proptest::test_runner::{Config, RngSeed, TestCaseError, TestError, TestRunner};
use std::any::Any;
use std::cell::RefCell;
use std::collections::{BTreeMap, HashSet};

#[derive(Clone, Debug)]
pub struct Fail {
    /// root-cause oriented signature, e.g. "C06/indexof/empty-pattern-at-length"
    pub class: String,
    pub msg: String,
}

#[derive(Clone, Debug, Default)]
pub struct Outcome {
    pub nontrivial: bool,
    /// digest of the decoded case (distinctness is counted on decoded cases, not on tapes)
    pub digest: u64,
    pub tags: Vec<&'static str>,
    /// readable rendering of the decoded case (filled only when Cx.render)
    pub render: String,
    pub discard: Option<String>,
    pub fails: Vec<Fail>,
    /// number of oracle comparisons performed in this case
    pub evals: u64,
}

impl Outcome {
    pub fn fail(&mut self, class: &str, msg: String) {
        // keep at most a few failures per case
        if self.fails.len() < 8 {
            self.fails.push(Fail { class: class.to_string(), msg });
        }
    }
    pub fn tag(&mut self, t: &'static str) {
        if !self.tags.contains(&t) {
            self.tags.push(t);
        }
    }
    pub fn discarded(reason: &str) -> Outcome {
        Outcome { discard: Some(reason.to_string()), ..Default::default() }
    }
}

/// per-run context handed to property functions
pub struct Cx {
    pub render: bool,
    /// profile name of this binary: "rel" or "dbg"
    pub profile: &'static str,
    pub thorough: bool,
}

pub fn profile_name() -> &'static str {
    if cfg!(debug_assertions) {
        "dbg"
    } else {
        "rel"
    }
}

pub type PropFn = fn(&[u8], &Cx) -> Outcome;

// ----------------------------------------------------------------------
// panic plumbing
// ----------------------------------------------------------------------

thread_local! {
    static LAST_PANIC: RefCell<String> = RefCell::new(String::new());
}

pub fn install_quiet_panic_hook() {
    std::panic::set_hook(Box::new(|info| {
        let loc = info.location().map(|l| format!("{}:{}", l.file(), l.line())).unwrap_or_default();
        let msg = if let Some(s) = info.payload().downcast_ref::<&str>() {
            s.to_string()
        } else if let Some(s) = info.payload().downcast_ref::<String>() {
            s.clone()
        } else {
            "<non-string panic>".to_string()
        };
        LAST_PANIC.with(|p| *p.borrow_mut() = format!("{} @ {}", msg, loc));
    }));
}

pub fn panic_msg(e: &Box<dyn Any + Send>) -> String {
    let from_hook = LAST_PANIC.with(|p| p.borrow().clone());
    if !from_hook.is_empty() {
        return from_hook;
    }
    if let Some(s) = e.downcast_ref::<&str>() {
        s.to_string()
    } else if let Some(s) = e.downcast_ref::<String>() {
        s.clone()
    } else {
        "<panic>".to_string()
    }
}

/// run f, turning a panic into Err(message)
pub fn catch<T>(f: impl FnOnce() -> T) -> Result<T, String> {
    LAST_PANIC.with(|p| p.borrow_mut().clear());
    match std::panic::catch_unwind(std::panic::AssertUnwindSafe(f)) {
        Ok(v) => Ok(v),
        Err(e) => Err(panic_msg(&e)),
    }
}

/// run a property function on one tape; an escaping panic is a failure of class "<id>/panic"
pub fn run_case(id: &str, f: PropFn, tape: &[u8], cx: &Cx) -> Outcome {
    match catch(|| f(tape, cx)) {
        Ok(o) => o,
        Err(msg) => {
            let mut o = Outcome::default();
            o.digest = fnv(tape);
            o.render = format!("tape={}", hex(tape));
            // class: panic site without line numbers of the harness itself
            let site = msg.rsplit(" @ ").next().unwrap_or("").to_string();
            let short = if site.contains("/repo/") || site.starts_with("src/") && !site.contains("harness") {
                site.rsplit('/').next().unwrap_or("").split(':').next().unwrap_or("").to_string()
            } else {
                "harness".to_string()
            };
            o.fail(&format!("{}/panic/{}", id, short), format!("unexpected panic: {}", msg));
            o
        }
    }
}

// ----------------------------------------------------------------------
// statistics
// ----------------------------------------------------------------------

#[derive(Default)]
pub struct Stats {
    pub cases: u64,
    pub evals: u64,
    pub nontrivial: u64,
    pub digests: HashSet<u64>,
    /// distinct non-trivial count for exhaustive enumerations (elements are distinct by construction)
    pub enum_nontrivial: u64,
    pub enum_cases: u64,
    pub tags: BTreeMap<String, u64>,
    pub discards: BTreeMap<String, u64>,
    pub known_hits: BTreeMap<String, (u64, String)>,
    pub samples: Vec<String>,
    pub violation: Option<Violation>,
    pub exhaustive_spaces: Vec<String>,
}

#[derive(Clone, Debug)]
pub struct Violation {
    pub class: String,
    pub msg: String,
    pub tape: Vec<u8>,
    pub case: String,
    pub engine: String,
}

impl Stats {
    pub fn absorb(&mut self, o: &Outcome) {
        self.cases += 1;
        self.evals += o.evals.max(1);
        if let Some(d) = &o.discard {
            *self.discards.entry(d.clone()).or_insert(0) += 1;
            return;
        }
        for t in &o.tags {
            *self.tags.entry(t.to_string()).or_insert(0) += 1;
        }
        if o.nontrivial {
            self.nontrivial += 1;
            // bounded memory: digests of at most 4M cases per process
            if self.digests.len() < 4_000_000 {
                self.digests.insert(o.digest);
            }
        }
    }
    pub fn tag(&mut self, t: &str, n: u64) {
        *self.tags.entry(t.to_string()).or_insert(0) += n;
    }
}

pub struct Known {
    pub classes: Vec<String>,
}

impl Known {
    pub fn is_known(&self, class: &str) -> bool {
        self.classes.iter().any(|c| c == class)
    }
}

/// first failure of the outcome that is not a known finding; known ones are counted
pub fn triage(o: &Outcome, known: &Known, stats: &mut Stats) -> Option<Fail> {
    let mut first = None;
    for f in &o.fails {
        if known.is_known(&f.class) {
            let e = stats.known_hits.entry(f.class.clone()).or_insert((0, f.msg.clone()));
            e.0 += 1;
        } else if first.is_none() {
            first = Some(f.clone());
        }
    }
    first
}

/// sink for exhaustive enumerations: elements are distinct by construction, so the distinct
/// non-trivial count is a plain counter; failures go through the same triage as generated cases
pub struct EnumSink<'a> {
    pub stats: &'a mut Stats,
    pub known: &'a Known,
}

impl<'a> EnumSink<'a> {
    pub fn case(&mut self, o: &Outcome, nontrivial: bool, describe: impl FnOnce() -> String) {
        self.stats.enum_cases += 1;
        self.stats.evals += o.evals.max(1);
        if nontrivial {
            self.stats.enum_nontrivial += 1;
        }
        if !o.fails.is_empty() {
            let mut scratch = Stats::default();
            let first = triage(o, self.known, &mut scratch);
            for (k, v) in scratch.known_hits {
                let e = self.stats.known_hits.entry(k).or_insert((0, v.1.clone()));
                e.0 += v.0;
            }
            if let Some(fl) = first {
                if self.stats.violation.is_none() {
                    self.stats.violation = Some(Violation { class: fl.class, msg: fl.msg, tape: vec![], case: describe(), engine: "enum".into() });
                }
            }
        }
    }
    pub fn failed(&self) -> bool {
        self.stats.violation.is_some()
    }
}

// ----------------------------------------------------------------------
// proptest engine
// ----------------------------------------------------------------------

pub fn seed_bytes(seed: u64, chunk: u64, salt: u64) -> [u8; 32] {
    // splitmix64 expansion of (seed, chunk, salt)
    let mut x = seed ^ chunk.wrapping_mul(0x9E3779B97F4A7C15) ^ salt.wrapping_mul(0xD1B54A32D192ED03) ^ 0x5851F42D4C957F2D;
    let mut out = [0u8; 32];
    for i in 0..4 {
        x = x.wrapping_add(0x9E3779B97F4A7C15);
        let mut z = x;
        z = (z ^ (z >> 30)).wrapping_mul(0xBF58476D1CE4E5B9);
        z = (z ^ (z >> 27)).wrapping_mul(0x94D049BB133111EB);
        z ^= z >> 31;
        out[i * 8..i * 8 + 8].copy_from_slice(&z.to_le_bytes());
    }
    out
}

pub struct PtArgs {
    pub id: String,
    pub cases: u32,
    pub seed: u64,
    pub chunk: u64,
    pub tape_len: usize,
    pub samples_wanted: usize,
}

/// Drive `f` with proptest-generated tapes. All randomness comes from proptest's own RNG seeded
/// from (VERIF_SEED, chunk); on failure the tape is shrunk by proptest and re-run for the report.
pub fn run_proptest(f: PropFn, args: &PtArgs, cx: &Cx, known: &Known, stats: &mut Stats) {
    let mut config = Config::default();
    config.cases = args.cases;
    config.failure_persistence = None;
    config.max_shrink_iters = 20_000;
    config.max_global_rejects = 1;
    let sb = seed_bytes(args.seed, args.chunk, 1);
    config.rng_seed = RngSeed::Fixed(u64::from_le_bytes(sb[0..8].try_into().unwrap()));
    let mut runner = TestRunner::new(config);
    let strategy = pvec(any::<u8>(), 0..=args.tape_len);

    let failed = std::cell::Cell::new(false);
    let stats_cell = RefCell::new(std::mem::take(stats));
    let sample_tapes: RefCell<Vec<Vec<u8>>> = RefCell::new(Vec::new());
    let id = args.id.clone();
    let result = runner.run(&strategy, |tape| {
        let o = run_case(&id, f, &tape, cx);
        let mut st = stats_cell.borrow_mut();
        if failed.get() {
            // shrinking phase: do not count, only report pass/fail on unknown classes
            let mut scratch = Stats::default();
            return match triage(&o, known, &mut scratch) {
                Some(fl) => Err(TestCaseError::fail(fl.class)),
                None => Ok(()),
            };
        }
        st.absorb(&o);
        if o.nontrivial && sample_tapes.borrow().len() < args.samples_wanted {
            sample_tapes.borrow_mut().push(tape.clone());
        }
        match triage(&o, known, &mut st) {
            Some(fl) => {
                failed.set(true);
                Err(TestCaseError::fail(fl.class))
            }
            None => Ok(()),
        }
    });
    *stats = stats_cell.into_inner();
    let render_cx = Cx { render: true, profile: cx.profile, thorough: cx.thorough };
    for t in sample_tapes.borrow().iter() {
        let o = run_case(&args.id, f, t, &render_cx);
        stats.samples.push(format!("[proptest/{}] {}", cx.profile, o.render));
    }
    match result {
        Ok(()) => {}
        Err(TestError::Fail(_, tape)) => {
            let o = run_case(&args.id, f, &tape, &render_cx);
            let mut scratch = Stats::default();
            let fl = triage(&o, known, &mut scratch).unwrap_or(Fail { class: format!("{}/unstable", args.id), msg: "failure did not reproduce on the shrunk tape".into() });
            stats.violation = Some(Violation { class: fl.class, msg: fl.msg, tape, case: o.render, engine: format!("proptest/{}", cx.profile) });
        }
        Err(TestError::Abort(r)) => {
            stats.discards.insert(format!("proptest-abort: {}", r), 1);
        }
    }
}

/// replay one tape in strict mode
pub fn run_replay(id: &str, f: PropFn, tape: &[u8], cx: &Cx, known: &Known, stats: &mut Stats, engine: &str) {
    let render_cx = Cx { render: true, profile: cx.profile, thorough: cx.thorough };
    let o = run_case(id, f, tape, &render_cx);
    stats.absorb(&o);
    if stats.samples.len() < 3 && o.discard.is_none() {
        stats.samples.push(format!("[{}/{}] {}", engine, cx.profile, o.render));
    }
    if stats.violation.is_none() {
        if let Some(fl) = triage(&o, known, stats) {
            stats.violation = Some(Violation { class: fl.class, msg: fl.msg, tape: tape.to_vec(), case: o.render, engine: format!("{}/{}", engine, cx.profile) });
        }
    }
}

// ----------------------------------------------------------------------
// minimal JSON output
// ----------------------------------------------------------------------

pub fn jstr(s: &str) -> String {
    let mut o = String::with_capacity(s.len() + 2);
    o.push('"');
    for c in s.chars() {
        match c {
            '"' => o.push_str("\\\""),
            '\\' => o.push_str("\\\\"),
            '\n' => o.push_str("\\n"),
            '\r' => o.push_str("\\r"),
            '\t' => o.push_str("\\t"),
            c if (c as u32) < 0x20 => o.push_str(&format!("\\u{:04x}", c as u32)),
            c => o.push(c),
        }
    }
    o.push('"');
    o
}

impl Stats {
    pub fn to_json(&self, profile: &str) -> String {
        let mut s = String::from("{");
        s.push_str(&format!("\"profile\":{},", jstr(profile)));
        s.push_str(&format!("\"cases\":{},\"evals\":{},\"nontrivial\":{},", self.cases, self.evals, self.nontrivial));
        s.push_str(&format!("\"enum_cases\":{},\"enum_nontrivial\":{},", self.enum_cases, self.enum_nontrivial));
        s.push_str("\"digests\":[");
        let mut first = true;
        let mut ds: Vec<&u64> = self.digests.iter().collect();
        ds.sort();
        for d in ds {
            if !first {
                s.push(',');
            }
            first = false;
            s.push_str(&format!("\"{:016x}\"", d));
        }
        s.push_str("],");
        let map = |m: &BTreeMap<String, u64>| -> String {
            let parts: Vec<String> = m.iter().map(|(k, v)| format!("{}:{}", jstr(k), v)).collect();
            format!("{{{}}}", parts.join(","))
        };
        s.push_str(&format!("\"tags\":{},\"discards\":{},", map(&self.tags), map(&self.discards)));
        let kh: Vec<String> = self.known_hits.iter().map(|(k, (n, m))| format!("{}:{{\"count\":{},\"example\":{}}}", jstr(k), n, jstr(m))).collect();
        s.push_str(&format!("\"known_hits\":{{{}}},", kh.join(",")));
        let sm: Vec<String> = self.samples.iter().map(|x| jstr(x)).collect();
        s.push_str(&format!("\"samples\":[{}],", sm.join(",")));
        let ex: Vec<String> = self.exhaustive_spaces.iter().map(|x| jstr(x)).collect();
        s.push_str(&format!("\"exhaustive_spaces\":[{}],", ex.join(",")));
        match &self.violation {
            None => s.push_str("\"violation\":null"),
            Some(v) => s.push_str(&format!(
                "\"violation\":{{\"class\":{},\"msg\":{},\"tape\":{},\"case\":{},\"engine\":{}}}",
                jstr(&v.class),
                jstr(&v.msg),
                jstr(&hex(&v.tape)),
                jstr(&v.case),
                jstr(&v.engine)
            )),
        }
        s.push('}');
        s
    }
}


/// Run `f` on a thread with the stack a user's program has by default (8 MiB, the usual main-thread
/// limit). The harness itself runs on a 256 MiB stack so that *its* bookkeeping never overflows; the
/// scale cases call the crate through this function instead, so that recursion whose depth grows with
/// the size of the input (number of states, length of a list) overflows here as it would for a user.
/// A stack overflow aborts the process; the driver reports it as `<ID>/stack-overflow`.
pub const USER_STACK: usize = 8 << 20;
pub fn on_user_stack<R: Send>(f: impl FnOnce() -> R + Send) -> R {
    std::thread::scope(|s| std::thread::Builder::new().stack_size(USER_STACK).spawn_scoped(s, f).expect("spawn").join().expect("scale-case thread panicked"))
}

/// a fresh thread (fresh thread-local manager for the SMT-LIB-named wrappers) with the stack a user's
/// main thread has, instead of the 2 MiB default of spawned threads
pub fn spawn_user_thread<R: Send + 'static>(f: impl FnOnce() -> R + Send + 'static) -> std::thread::JoinHandle<R> {
    std::thread::Builder::new().stack_size(USER_STACK).spawn(f).expect("spawn")
}
