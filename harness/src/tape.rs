//! Byte tape -> structured choices.
//!
//! Every generated case is a pure function of a byte tape. Decoding is
//! monotone (a smaller byte selects an earlier / simpler alternative) and total
//! (an exhausted tape yields zeros), so that proptest's shrinker, the
//! exhaustive enumerators and libFuzzer can all drive the same decoders.

#[derive(Clone)]
pub struct Tape<'a> {
    data: &'a [u8],
    pos: usize,
}

impl<'a> Tape<'a> {
    pub fn new(data: &'a [u8]) -> Self {
        Tape { data, pos: 0 }
    }

    /// true when every byte has been consumed
    pub fn exhausted(&self) -> bool {
        self.pos >= self.data.len()
    }

    pub fn remaining(&self) -> usize {
        self.data.len().saturating_sub(self.pos)
    }

    pub fn byte(&mut self) -> u8 {
        if self.pos < self.data.len() {
            let b = self.data[self.pos];
            self.pos += 1;
            b
        } else {
            0
        }
    }

    /// value in 0..n (n >= 1), monotone in the byte(s) read
    pub fn choose(&mut self, n: usize) -> usize {
        debug_assert!(n >= 1);
        if n <= 1 {
            return 0;
        }
        if n <= 256 {
            (self.byte() as usize * n) >> 8
        } else {
            let hi = self.byte() as usize;
            let lo = self.byte() as usize;
            (((hi << 8) | lo) * n) >> 16
        }
    }

    /// true with probability about p/256
    pub fn bool_p(&mut self, p: u32) -> bool {
        // byte 0 -> false (the simple alternative)
        let b = self.byte() as u32;
        b != 0 && 256 - b <= p
    }

    pub fn flag(&mut self) -> bool {
        self.byte() >= 128
    }

    /// value in lo..=hi, monotone
    pub fn u32_in(&mut self, lo: u32, hi: u32) -> u32 {
        debug_assert!(lo <= hi);
        let span = (hi - lo) as u64 + 1;
        if span <= 256 {
            lo + ((self.byte() as u64 * span) >> 8) as u32
        } else if span <= 65536 {
            let v = ((self.byte() as u64) << 8) | self.byte() as u64;
            lo + ((v * span) >> 16) as u32
        } else {
            let mut v: u64 = 0;
            for _ in 0..4 {
                v = (v << 8) | self.byte() as u64;
            }
            lo + ((v * span) >> 32) as u32
        }
    }

    /// weighted choice: returns index i with probability w[i]/sum(w); index 0 for byte 0
    pub fn weighted(&mut self, w: &[u32]) -> usize {
        let total: u32 = w.iter().sum();
        debug_assert!(total > 0);
        let v = if total <= 256 {
            (self.byte() as u32 * total) >> 8
        } else {
            let x = ((self.byte() as u32) << 8) | self.byte() as u32;
            ((x as u64 * total as u64) >> 16) as u32
        };
        let mut acc = 0;
        for (i, &x) in w.iter().enumerate() {
            acc += x;
            if v < acc {
                return i;
            }
        }
        w.len() - 1
    }

    pub fn pick<T: Copy>(&mut self, items: &[T]) -> T {
        items[self.choose(items.len())]
    }
}

pub fn hex(bytes: &[u8]) -> String {
    let mut s = String::with_capacity(bytes.len() * 2);
    for b in bytes {
        s.push_str(&format!("{:02x}", b));
    }
    s
}

pub fn unhex(s: &str) -> Option<Vec<u8>> {
    let s = s.trim();
    if s.len() % 2 != 0 {
        return None;
    }
    let mut v = Vec::with_capacity(s.len() / 2);
    let b = s.as_bytes();
    for i in (0..b.len()).step_by(2) {
        let h = (b[i] as char).to_digit(16)?;
        let l = (b[i + 1] as char).to_digit(16)?;
        v.push((h * 16 + l) as u8);
    }
    Some(v)
}

/// FNV-1a 64 digest, used to count distinct cases
pub fn fnv(bytes: &[u8]) -> u64 {
    let mut h: u64 = 0xcbf29ce484222325;
    for &b in bytes {
        h ^= b as u64;
        h = h.wrapping_mul(0x100000001b3);
    }
    h
}

pub fn fnv_str(s: &str) -> u64 {
    fnv(s.as_bytes())
}
