//! C11 — CharPartition queries agree with the set-theoretic meaning of the partition.
//! Oracle R6 (linear scans over the interval list / segment masks).

use crate::atoms::{show_char, MAX};
use crate::ivl::{all_partitions, Universe};
use crate::runner::{Cx, EnumSink, Outcome};
use crate::tape::{fnv, Tape};
use aws_smt_strings::character_sets::{CharPartition, CharSet, ClassId, CoverResult};
use aws_smt_strings::errors::Error;

pub fn show_iv(iv: (u32, u32)) -> String {
    format!("[{},{}]", show_char(iv.0), show_char(iv.1))
}
pub fn show_part(p: &[(u32, u32)]) -> String {
    format!("{{{}}}", p.iter().map(|&x| show_iv(x)).collect::<Vec<_>>().join(" "))
}

/// sorted, pairwise disjoint intervals decoded from the tape (construction, not rejection)
pub fn gen_partition(t: &mut Tape, max_n: usize) -> Vec<(u32, u32)> {
    let n = t.choose(max_n + 1);
    let mut v: Vec<(u32, u32)> = Vec::new();
    let seams: [u32; 10] = [0x7F, 0xD7FF, 0xD800, 0xDBFF, 0xDC00, 0xDFFF, 0xE000, 0xFFFD, 0xFFFF, 0x10000];
    let mut next: u64 = match t.weighted(&[4, 2, 2, 2, 1]) {
        0 => 0,
        1 => 1,
        2 => t.u32_in(0, 200) as u64,
        3 => t.u32_in(0, MAX) as u64,
        _ => seams[t.choose(seams.len())] as u64,
    };
    for _ in 0..n {
        if next > MAX as u64 {
            break;
        }
        let a = next as u32;
        let room = MAX - a;
        let width = match t.weighted(&[4, 3, 3, 2, 1, 1]) {
            0 => 0,
            1 => 1,
            2 => t.u32_in(0, 40),
            3 => t.u32_in(0, room),
            4 => room, // up to MAX
            _ => {
                // end exactly on a seam of the code space
                let e = seams[t.choose(seams.len())];
                if e >= a {
                    e - a
                } else {
                    0
                }
            }
        }
        .min(room);
        let b = a + width;
        v.push((a, b));
        let gap = match t.weighted(&[5, 3, 3, 2]) {
            0 => 1, // adjacent
            1 => 2, // one character in between
            2 => 1 + t.u32_in(0, 50),
            _ => 1 + t.u32_in(0, MAX),
        };
        next = b as u64 + gap as u64;
    }
    v
}

/// a query set placed relative to the partition's boundaries
pub fn gen_query(t: &mut Tape, p: &[(u32, u32)]) -> (u32, u32) {
    let mut pts: Vec<u32> = vec![0, MAX];
    for &(a, b) in p {
        for c in [a, b] {
            pts.push(c);
            if c > 0 {
                pts.push(c - 1);
            }
            if c < MAX {
                pts.push(c + 1);
            }
        }
        pts.push(a + (b - a) / 2);
    }
    let pick = |t: &mut Tape| -> u32 {
        if t.bool_p(40) {
            t.u32_in(0, MAX)
        } else {
            pts[t.choose(pts.len())]
        }
    };
    let x = pick(t);
    let y = pick(t);
    (x.min(y), x.max(y))
}

/// same intervals and same emptiness of the complement (witnesses are checked for validity, not identity)
fn same(p: &CharPartition, q: &CharPartition) -> bool {
    p.len() == q.len() && (0..p.len()).all(|i| p.get(i) == q.get(i)) && p.empty_complement() == q.empty_complement()
}

fn witness_ok(ivs: &[(u32, u32)], p: &CharPartition) -> bool {
    let w = p.pick_complement();
    if complement_card(ivs) == 0 {
        w == MAX + 1 && p.empty_complement()
    } else {
        w <= MAX && class_of(ivs, w) == ClassId::Complement && !p.empty_complement()
    }
}

fn build_push(ivs: &[(u32, u32)]) -> CharPartition {
    let mut p = CharPartition::new();
    for &(a, b) in ivs {
        p.push(a, b);
    }
    p
}

fn class_of(ivs: &[(u32, u32)], c: u32) -> ClassId {
    for (i, &(a, b)) in ivs.iter().enumerate() {
        if a <= c && c <= b {
            return ClassId::Interval(i);
        }
    }
    ClassId::Complement
}

fn complement_card(ivs: &[(u32, u32)]) -> u64 {
    let covered: u64 = ivs.iter().map(|&(a, b)| (b - a) as u64 + 1).sum();
    MAX as u64 + 1 - covered
}

/// all structural and per-character facts of a partition
pub fn check_partition(ivs: &[(u32, u32)], p: &CharPartition, chars: &[u32], o: &mut Outcome) {
    let n = ivs.len();
    let sp = || show_part(ivs);
    o.evals += 8;
    if p.len() != n || p.is_empty() != (n == 0) {
        o.fail("C11/len", format!("{}: len() = {}, is_empty() = {}", sp(), p.len(), p.is_empty()));
        return;
    }
    for i in 0..n + 2 {
        let exp = if i < n { ivs[i] } else { (MAX + 1, MAX + 1) };
        if p.get(i) != exp || p.start(i) != exp.0 || p.end(i) != exp.1 {
            o.fail("C11/get", format!("{}: get({}) = {:?}, start = {:#x}, end = {:#x}", sp(), i, p.get(i), p.start(i), p.end(i)));
        }
        if i < n {
            if p.interval(i) != CharSet::range(exp.0, exp.1) {
                o.fail("C11/interval", format!("{}: interval({}) = {}", sp(), i, p.interval(i)));
            }
            let k = p.pick(i);
            if !(exp.0 <= k && k <= exp.1) {
                o.fail("C11/pick", format!("{}: pick({}) = {:#x} not in the interval", sp(), i, k));
            }
            let k = p.pick_in_class(ClassId::Interval(i));
            if !(exp.0 <= k && k <= exp.1) {
                o.fail("C11/pick_in_class", format!("{}: pick_in_class(Interval({})) = {:#x}", sp(), i, k));
            }
        }
        if p.valid_class_id(ClassId::Interval(i)) != (i < n) {
            o.fail("C11/valid_class_id", format!("{}: valid_class_id(Interval({})) = {}", sp(), i, !(i < n)));
        }
    }
    let ranges: Vec<CharSet> = p.ranges().copied().collect();
    if ranges != ivs.iter().map(|&(a, b)| CharSet::range(a, b)).collect::<Vec<_>>() {
        o.fail("C11/ranges", format!("{}: ranges() differ from the intervals", sp()));
    }
    // complement
    let comp_nonempty = complement_card(ivs) > 0;
    if p.empty_complement() == comp_nonempty {
        o.fail("C11/empty_complement", format!("{}: empty_complement() = {}", sp(), p.empty_complement()));
    }
    let w = p.pick_complement();
    if comp_nonempty {
        if w > MAX || class_of(ivs, w) != ClassId::Complement {
            o.fail("C11/pick_complement", format!("{}: pick_complement() = {:#x} is not in the complementary class", sp(), w));
        } else if p.pick_in_class(ClassId::Complement) > MAX || class_of(ivs, p.pick_in_class(ClassId::Complement)) != ClassId::Complement {
            o.fail("C11/pick_in_class", format!("{}: pick_in_class(Complement) wrong", sp()));
        }
    } else if w != MAX + 1 {
        o.fail("C11/pick_complement", format!("{}: pick_complement() = {:#x}, expected MAX+1 for an empty complement", sp(), w));
    }
    if p.valid_class_id(ClassId::Complement) != comp_nonempty {
        o.fail("C11/valid_class_id", format!("{}: valid_class_id(Complement) = {}", sp(), !comp_nonempty));
    }
    let exp_classes = n + comp_nonempty as usize;
    if p.num_classes() != exp_classes {
        o.fail("C11/num_classes", format!("{}: num_classes() = {}, expected {}", sp(), p.num_classes(), exp_classes));
    }
    // class_ids: exactly the non-empty classes, each once
    let mut ids: Vec<ClassId> = p.class_ids().take(n + 5).collect();
    let mut exp_ids: Vec<ClassId> = (0..n).map(ClassId::Interval).collect();
    if comp_nonempty {
        exp_ids.push(ClassId::Complement);
    }
    let key = |c: &ClassId| match c {
        ClassId::Interval(i) => *i,
        ClassId::Complement => usize::MAX,
    };
    ids.sort_by_key(key);
    if ids != exp_ids {
        o.fail("C11/class_ids", format!("{}: class_ids() = {:?}", sp(), ids));
    }
    // the iterators through the rest of the Iterator protocol: nth / skip / step_by / last / count must
    // agree with plain next()
    {
        let all_ids: Vec<ClassId> = p.class_ids().take(n + 5).collect();
        let all_picks: Vec<u32> = p.picks().take(n + 5).collect();
        let ks: Vec<usize> = if all_ids.len() <= 12 { (0..=all_ids.len() + 1).collect() } else { vec![0, 1, all_ids.len() / 2, all_ids.len() - 2, all_ids.len() - 1, all_ids.len(), all_ids.len() + 1] };
        for &k in &ks {
            o.evals += 4;
            let a = (p.class_ids().nth(k), p.class_ids().skip(k).next(), p.picks().nth(k), p.picks().skip(k).next());
            let e = (all_ids.get(k).copied(), all_ids.get(k).copied(), all_picks.get(k).copied(), all_picks.get(k).copied());
            if a != e {
                o.fail("C11/iterator-protocol", format!("{}: at position {}: class_ids().nth = {:?}, skip().next = {:?}, picks().nth = {:x?}, skip().next = {:x?}; plain iteration gives {:?} / {:x?}", sp(), k, a.0, a.1, a.2, a.3, e.0, e.2));
                break;
            }
        }
        let stepped: Vec<u32> = p.picks().step_by(2).take(n + 5).collect();
        let exp_stepped: Vec<u32> = all_picks.iter().copied().step_by(2).collect();
        if stepped != exp_stepped || p.picks().count() != all_picks.len() || p.class_ids().count() != all_ids.len() || p.picks().last() != all_picks.last().copied() || p.class_ids().last() != all_ids.last().copied() {
            o.fail("C11/iterator-protocol", format!("{}: step_by(2) / count / last of picks() or class_ids() disagree with plain iteration ({:x?} vs {:x?})", sp(), stepped, exp_stepped));
        }
    }
    // picks: one character of every class
    let picks: Vec<u32> = p.picks().take(n + 5).collect();
    let mut pick_classes: Vec<ClassId> = picks.iter().map(|&c| if c > MAX { ClassId::Interval(usize::MAX - 1) } else { class_of(ivs, c) }).collect();
    pick_classes.sort_by_key(key);
    if pick_classes != exp_ids {
        o.fail("C11/picks", format!("{}: picks() = {:x?} do not hit every class exactly once", sp(), picks));
    }
    // class_of_char
    for &c in chars {
        o.evals += 1;
        let exp = class_of(ivs, c);
        let got = p.class_of_char(c);
        if got != exp {
            o.fail("C11/class_of_char", format!("{}: class_of_char({}) = {}, expected {}", sp(), show_char(c), got, exp));
        }
    }
}

pub fn expected_cover(ivs: &[(u32, u32)], q: (u32, u32)) -> CoverResult {
    let mut meets = false;
    for (i, &(a, b)) in ivs.iter().enumerate() {
        if a <= q.0 && q.1 <= b {
            return CoverResult::CoveredBy(i);
        }
        if !(q.1 < a || b < q.0) {
            meets = true;
        }
    }
    if meets {
        CoverResult::Overlaps
    } else {
        CoverResult::DisjointFromAll
    }
}

pub fn check_query(ivs: &[(u32, u32)], p: &CharPartition, q: (u32, u32), o: &mut Outcome) {
    o.evals += 3;
    let set = CharSet::range(q.0, q.1);
    let exp = expected_cover(ivs, q);
    let got = p.interval_cover(&set);
    if got != exp {
        let class = match (exp, got) {
            (CoverResult::Overlaps, CoverResult::DisjointFromAll) => "C11/interval_cover/overlap-reported-disjoint",
            _ => "C11/interval_cover",
        };
        o.fail(class, format!("{}.interval_cover({}) = {}, expected {}", show_part(ivs), show_iv(q), got, exp));
    }
    let exp_cls: Result<ClassId, Error> = match exp {
        CoverResult::CoveredBy(i) => Ok(ClassId::Interval(i)),
        CoverResult::DisjointFromAll => Ok(ClassId::Complement),
        CoverResult::Overlaps => Err(Error::AmbiguousCharSet),
    };
    let got_cls = p.class_of_set(&set);
    if got_cls != exp_cls {
        let class = if exp_cls.is_err() { "C11/class_of_set/overlap-accepted" } else { "C11/class_of_set" };
        o.fail(class, format!("{}.class_of_set({}) = {:?}, expected {:?}", show_part(ivs), show_iv(q), got_cls, exp_cls));
    }
    if p.good_char_set(&set) != exp_cls.is_ok() {
        let class = if exp_cls.is_err() { "C11/good_char_set/overlap-accepted" } else { "C11/good_char_set" };
        o.fail(class, format!("{}.good_char_set({}) = {}", show_part(ivs), show_iv(q), p.good_char_set(&set)));
    }
}

fn pairwise_disjoint(l: &[(u32, u32)]) -> bool {
    for i in 0..l.len() {
        for j in 0..i {
            if !(l[i].1 < l[j].0 || l[j].1 < l[i].0) {
                return false;
            }
        }
    }
    true
}

/// try_from_iter / try_from_list on an arbitrary list: Ok iff pairwise disjoint, and equal to push
pub fn check_from_iter(list: &[(u32, u32)], o: &mut Outcome) {
    o.evals += 4;
    let sets: Vec<CharSet> = list.iter().map(|&(a, b)| CharSet::range(a, b)).collect();
    let r1 = CharPartition::try_from_iter(sets.iter().copied());
    let r2 = CharPartition::try_from_list(&sets);
    // the argument is "an iterator": the same sets through adaptors with an inexact size_hint / lazy items
    let r3 = CharPartition::try_from_iter(sets.iter().copied().filter(|_| true));
    let mut k = 0;
    let r4 = CharPartition::try_from_iter(std::iter::from_fn(|| {
        k += 1;
        sets.get(k - 1).copied()
    }));
    let disjoint = pairwise_disjoint(list);
    for (name, r) in [("try_from_iter", &r1), ("try_from_list", &r2), ("try_from_iter(filter)", &r3), ("try_from_iter(from_fn)", &r4)] {
        match r {
            Ok(p) => {
                if !disjoint {
                    o.fail("C11/try_from_iter/accepts-overlap", format!("{}({}) = Ok although two sets intersect", name, show_part(list)));
                } else {
                    let mut sorted = list.to_vec();
                    sorted.sort();
                    if !same(p, &build_push(&sorted)) || !witness_ok(&sorted, p) {
                        o.fail("C11/try_from_iter/differs-from-push", format!("{}({}) = {} differs from the push construction (witness {:#x})", name, show_part(list), p, p.pick_complement()));
                    }
                }
            }
            Err(e) => {
                if disjoint {
                    o.fail("C11/try_from_iter/rejects-disjoint", format!("{}({}) = Err({:?}) although the sets are pairwise disjoint", name, show_part(list), e));
                } else if *e != Error::NonDisjointCharSets {
                    o.fail("C11/try_from_iter/error-variant", format!("{}({}) = Err({:?})", name, show_part(list), e));
                }
            }
        }
    }
}

/// The same queries observed through an automaton (`Automaton::char_set_next` is `class_of_set` on a
/// state's own partition): state 0 gets one transition per interval and, if some character is left
/// uncovered, a default successor. Judged semantically, on whatever partition the builder gave state 0:
/// Ok(t) only if every character of the set is in one class of the state and t is its successor;
/// an error only if the set really meets two classes of the state.
pub fn check_automaton_view(ivs: &[(u32, u32)], queries: &[(u32, u32)], o: &mut Outcome) {
    use aws_smt_strings::automata::AutomatonBuilder;
    let mut b: AutomatonBuilder<u32> = AutomatonBuilder::new(&0);
    for (i, &(lo, hi)) in ivs.iter().enumerate() {
        b.add_transition(&0, &CharSet::range(lo, hi), &(1 + (i as u32 % 3)));
    }
    if complement_card(ivs) > 0 {
        b.set_default_successor(&0, &4);
    }
    for q in 1..=4u32 {
        b.set_default_successor(&q, &q);
    }
    b.mark_final(&2);
    let a = match crate::runner::catch(|| b.build()) {
        Ok(Ok(a)) => a,
        // whether the builder accepts a specification is C13's subject
        _ => {
            o.tag("automaton-view-skipped");
            return;
        }
    };
    let s0 = a.initial_state();
    let ranges: Vec<(u32, u32)> = s0.char_ranges().map(|r| crate::bisim::bounds_of(r)).collect();
    for &(qa, qb) in queries {
        o.evals += 1;
        // the class can only change at the boundaries of the state's ranges
        let mut probes = vec![qa, qb];
        for &(lo, hi) in &ranges {
            for c in [lo, hi] {
                if qa <= c && c <= qb {
                    probes.push(c);
                }
                if c > 0 && qa <= c - 1 && c - 1 <= qb {
                    probes.push(c - 1);
                }
                if c < MAX && qa <= c + 1 && c + 1 <= qb {
                    probes.push(c + 1);
                }
            }
        }
        let classes: std::collections::BTreeSet<String> = probes.iter().map(|&c| format!("{}", s0.class_of_char(c))).collect();
        let set = CharSet::range(qa, qb);
        match crate::runner::catch(|| a.char_set_next(s0, &set).map(|st| st.id())) {
            Ok(Ok(t)) => {
                let exp = a.next(s0, qa).id();
                if classes.len() != 1 || t != exp {
                    o.fail("C11/char_set_next", format!("state with classes {}: char_set_next({}) = state {} although the set meets {} classes / next({}) = state {}", show_part(&ranges), show_iv((qa, qb)), t, classes.len(), show_char(qa), exp));
                }
            }
            Ok(Err(e)) => {
                if classes.len() == 1 || e != Error::AmbiguousCharSet {
                    o.fail("C11/char_set_next", format!("state with classes {}: char_set_next({}) = Err({:?}) although the set lies in {} class(es)", show_part(&ranges), show_iv((qa, qb)), e, classes.len()));
                }
            }
            Err(msg) => o.fail("C11/char_set_next", format!("char_set_next({}) panicked: {}", show_iv((qa, qb)), msg)),
        }
    }
}

/// "However it was built": the partition under construction is a partition after every push, and a
/// copy (clone, clone_from over a different partition, Default + pushes) is the same partition.
/// Queries are interleaved with the pushes, the same character asked again right after the push that
/// covers it (answers remembered across a mutation), and every prefix is judged by the oracle.
pub fn check_incremental(ivs: &[(u32, u32)], chars: &[u32], o: &mut Outcome) {
    let mut p = CharPartition::default();
    let full_checks = ivs.len() <= 8;
    for k in 0..ivs.len() {
        let (lo, hi) = ivs[k];
        let prefix = &ivs[..k];
        // characters of the interval about to be pushed, asked before and after
        let probes = [lo, hi, lo + (hi - lo) / 2, if hi < MAX { hi + 1 } else { hi }];
        for &x in &probes {
            o.evals += 1;
            let got = p.class_of_char(x);
            let exp = class_of(prefix, x);
            if got != exp {
                o.fail("C11/incremental/class_of_char", format!("after pushing {}: class_of_char({}) = {}, expected {}", show_part(prefix), show_char(x), got, exp));
                return;
            }
        }
        let set = CharSet::range(lo, hi);
        let _ = p.class_of_set(&set);
        let _ = p.pick_complement();
        p.push(lo, hi);
        let prefix = &ivs[..=k];
        for &x in &probes {
            o.evals += 1;
            let got = p.class_of_char(x);
            let exp = class_of(prefix, x);
            if got != exp {
                o.fail("C11/incremental/class_of_char", format!("after pushing {} (the same character was asked just before the last push): class_of_char({}) = {}, expected {}", show_part(prefix), show_char(x), got, exp));
                return;
            }
        }
        o.evals += 1;
        match p.class_of_set(&set) {
            Ok(ClassId::Interval(i)) if i == k => {}
            other => {
                o.fail("C11/incremental/class_of_set", format!("after pushing {}: class_of_set({}) = {:?}", show_part(prefix), show_iv((lo, hi)), other));
                return;
            }
        }
        if !witness_ok(prefix, &p) {
            o.fail("C11/incremental/pick_complement", format!("after pushing {}: pick_complement() = {:#x}, empty_complement() = {}", show_part(prefix), p.pick_complement(), p.empty_complement()));
            return;
        }
        if full_checks {
            let before = o.fails.len();
            check_partition(prefix, &p, chars, o);
            if o.fails.len() > before {
                return;
            }
        }
    }
    // copies
    let q = p.clone();
    let before = o.fails.len();
    check_partition(ivs, &q, chars, o);
    if o.fails.len() > before {
        let f = o.fails.last_mut().unwrap();
        f.class = "C11/copy".to_string();
        f.msg = format!("clone(): {}", f.msg);
        return;
    }
    // clone_from over partitions with a different complement witness
    for other in [vec![], vec![(0u32, 10u32)], vec![(0, MAX)], vec![(5, 9), (MAX - 1, MAX)]] {
        let mut r = build_push(&other);
        r.clone_from(&p);
        check_partition(ivs, &r, chars, o);
        if o.fails.len() > before {
            let f = o.fails.last_mut().unwrap();
            f.class = "C11/copy".to_string();
            f.msg = format!("clone_from() over {}: {}", show_part(&other), f.msg);
            return;
        }
        // and it keeps behaving like the original under further pushes
        if let Some(&(_, last_hi)) = ivs.last() {
            if last_hi + 2 <= MAX {
                r.push(last_hi + 2, MAX);
                let mut ext = ivs.to_vec();
                ext.push((last_hi + 2, MAX));
                if !witness_ok(&ext, &r) || r.class_of_char(MAX) != ClassId::Interval(ivs.len()) {
                    o.fail("C11/copy", format!("clone_from() over {} then push: witness {:#x} / class_of_char(MAX) = {}", show_part(&other), r.pick_complement(), r.class_of_char(MAX)));
                    return;
                }
            }
        }
    }
}

pub fn run(tape: &[u8], cx: &Cx) -> Outcome {
    let mut t = Tape::new(tape);
    // mostly 0-8 intervals; a sixth of the cases up to 70 (search strategies change with the size)
    let max_n = if t.bool_p(42) { 70 } else { 8 };
    let ivs = gen_partition(&mut t, max_n);
    let nq = 1 + t.choose(6);
    let queries: Vec<(u32, u32)> = (0..nq).map(|_| gen_query(&mut t, &ivs)).collect();
    // an arbitrary (possibly overlapping, shuffled) list for try_from_iter
    let mut list = ivs.clone();
    let extra = t.choose(3);
    for _ in 0..extra {
        list.push(gen_query(&mut t, &ivs));
    }
    // shuffle by tape-driven swaps
    for i in (1..list.len()).rev() {
        let j = t.choose(i + 1);
        list.swap(i, j);
    }
    let mut o = Outcome::default();
    o.digest = fnv(format!("{:?}{:?}{:?}", ivs, queries, list).as_bytes());
    if cx.render {
        o.render = format!("partition {} queries {} list {}", show_part(&ivs), queries.iter().map(|&q| show_iv(q)).collect::<Vec<_>>().join(" "), show_part(&list));
    }
    // probe characters: both ends of every interval and query, their neighbours, a middle point
    let mut all = ivs.clone();
    all.extend(&queries);
    let mut cs: std::collections::BTreeSet<u32> = [0u32, MAX].into_iter().collect();
    for &(a, b) in &all {
        for c in [a, b, a + (b - a) / 2] {
            cs.insert(c);
            if c > 0 {
                cs.insert(c - 1);
            }
            if c < MAX {
                cs.insert(c + 1);
            }
        }
    }
    let chars: Vec<u32> = cs.into_iter().collect();
    let p = build_push(&ivs);
    check_partition(&ivs, &p, &chars, &mut o);
    if ivs.len() == 1 {
        let q = CharPartition::from_set(&CharSet::range(ivs[0].0, ivs[0].1));
        if !same(&q, &p) || !witness_ok(&ivs, &q) {
            o.fail("C11/from_set", format!("from_set({}) differs from push (witness {:#x} vs {:#x})", show_iv(ivs[0]), q.pick_complement(), p.pick_complement()));
        }
    }
    for &q in &queries {
        check_query(&ivs, &p, q, &mut o);
        // non-trivial: >= 2 intervals and an end point of the query in a gap
        if ivs.len() >= 2 && (class_of(&ivs, q.0) == ClassId::Complement || class_of(&ivs, q.1) == ClassId::Complement) {
            o.nontrivial = true;
        }
        match expected_cover(&ivs, q) {
            CoverResult::CoveredBy(_) => o.tag("query-covered"),
            CoverResult::DisjointFromAll => o.tag("query-disjoint"),
            CoverResult::Overlaps => o.tag("query-overlaps"),
        }
    }
    // "however it was built": the same facts and queries on the partition built by try_from_iter from
    // the intervals in reverse order (and from_set for a single interval)
    if o.fails.is_empty() && !ivs.is_empty() {
        let built = if ivs.len() == 1 && t.flag() {
            Ok(CharPartition::from_set(&CharSet::range(ivs[0].0, ivs[0].1)))
        } else {
            CharPartition::try_from_iter(ivs.iter().rev().map(|&(a, b)| CharSet::range(a, b)))
        };
        match built {
            Ok(q) => {
                check_partition(&ivs, &q, &chars, &mut o);
                for &qu in &queries {
                    check_query(&ivs, &q, qu, &mut o);
                }
            }
            Err(e) => o.fail("C11/try_from_iter/rejects-disjoint", format!("try_from_iter({}) reversed = Err({:?}) although the sets are pairwise disjoint", show_part(&ivs), e)),
        }
    }
    check_from_iter(&list, &mut o);
    if ivs.len() <= 24 {
        check_automaton_view(&ivs, &queries, &mut o);
    }
    if o.fails.is_empty() {
        check_incremental(&ivs, &chars, &mut o);
    }
    if pairwise_disjoint(&list) {
        o.tag("from_iter-disjoint");
    } else {
        o.tag("from_iter-overlapping");
    }
    if complement_card(&ivs) == 0 {
        o.tag("full-cover");
    }
    if ivs.windows(2).any(|w| w[0].1 + 1 == w[1].0) {
        o.tag("adjacent-intervals");
    }
    if ivs.len() >= 17 {
        o.tag(">=17-intervals");
    }
    o
}

/// exhaustive: every partition on the small universe x every query set x every probe character;
/// every partition rebuilt through try_from_iter on the reversed and a rotated list
pub fn enumerate(n: u32, part: usize, parts: usize, sink: &mut EnumSink) {
    let u = Universe::small_scope(n);
    let chars = u.probe_chars();
    let queries = u.all_intervals();
    let all = all_partitions(&u, usize::MAX);
    for (idx, ivs) in all.iter().enumerate() {
        if idx % parts != part {
            continue;
        }
        let p = build_push(ivs);
        let mut o = Outcome::default();
        check_partition(ivs, &p, &chars, &mut o);
        let mut rev = ivs.clone();
        rev.reverse();
        check_from_iter(&rev, &mut o);
        if ivs.len() >= 2 {
            let mut rot = ivs.clone();
            rot.rotate_left(1);
            check_from_iter(&rot, &mut o);
        }
        if ivs.len() == 1 {
            let q = CharPartition::from_set(&CharSet::range(ivs[0].0, ivs[0].1));
            if !same(&q, &p) || !witness_ok(ivs, &q) {
                o.fail("C11/from_set", format!("from_set({}) differs from push", show_iv(ivs[0])));
            }
        }
        if o.fails.is_empty() {
            check_incremental(ivs, &chars, &mut o);
        }
        sink.case(&o, false, || format!("partition {}", show_part(ivs)));
        for &q in &queries {
            let mut o = Outcome::default();
            check_query(ivs, &p, q, &mut o);
            let nt = ivs.len() >= 2 && (class_of(ivs, q.0) == ClassId::Complement || class_of(ivs, q.1) == ClassId::Complement);
            sink.case(&o, nt, || format!("partition {} query {}", show_part(ivs), show_iv(q)));
        }
        if sink.failed() {
            return;
        }
    }
    // scale case: 98 304 singleton intervals (every even character), more than 2^16 of them, built by
    // push and by try_from_iter on the reversed list; judged arithmetically
    if part == parts - 1 {
        let n_iv = (MAX as usize + 1) / 2;
        let mut p = CharPartition::new();
        for k in 0..n_iv as u32 {
            p.push(2 * k, 2 * k);
        }
        let rev = CharPartition::try_from_iter((0..n_iv as u32).rev().map(|k| CharSet::singleton(2 * k)));
        let mut o = Outcome::default();
        let parts_to_check: Vec<(&str, &CharPartition)> = match &rev {
            Ok(q) => vec![("push", &p), ("try_from_iter(reversed)", q)],
            Err(e) => {
                o.fail("C11/try_from_iter/rejects-disjoint", format!("try_from_iter on 98304 disjoint singletons = Err({:?})", e));
                vec![("push", &p)]
            }
        };
        for (how, q) in parts_to_check {
            o.evals += 1;
            if q.len() != n_iv || q.num_classes() != n_iv + 1 || q.empty_complement() || q.pick_complement() % 2 != 1 || q.pick_complement() > MAX {
                o.fail("C11/scale", format!("98304 even singletons ({}): len {}, num_classes {}, empty_complement {}, witness {:#x}", how, q.len(), q.num_classes(), q.empty_complement(), q.pick_complement()));
                break;
            }
            let mut c = 0u32;
            while c <= MAX {
                o.evals += 1;
                let exp = if c % 2 == 0 { ClassId::Interval((c / 2) as usize) } else { ClassId::Complement };
                let got = q.class_of_char(c);
                if got != exp {
                    o.fail("C11/scale", format!("98304 even singletons ({}): class_of_char({:#x}) = {}, expected {}", how, c, got, exp));
                    break;
                }
                // [c, c] is covered by its interval or disjoint; [c, c+1] always overlaps one interval and the complement
                let one = q.interval_cover(&CharSet::singleton(c));
                let exp_one = if c % 2 == 0 { CoverResult::CoveredBy((c / 2) as usize) } else { CoverResult::DisjointFromAll };
                let two = if c < MAX { q.interval_cover(&CharSet::range(c, c + 1)) } else { CoverResult::Overlaps };
                if one != exp_one || two != CoverResult::Overlaps {
                    o.fail("C11/scale", format!("98304 even singletons ({}): interval_cover([{:#x}]) = {}, interval_cover([{:#x},{:#x}]) = {}", how, c, one, c, c + 1, two));
                    break;
                }
                c += if c < 70000 && c > 65000 { 1 } else { 37 };
            }
            if !o.fails.is_empty() {
                break;
            }
            if q.picks().count() != n_iv + 1 || q.class_ids().count() != n_iv + 1 {
                o.fail("C11/scale", format!("98304 even singletons ({}): picks() yields {} items, class_ids() {}", how, q.picks().count(), q.class_ids().count()));
                break;
            }
        }
        sink.case(&o, true, || "scale case: 98304 singleton intervals".to_string());
        sink.stats.exhaustive_spaces.push("scale case: the partition of all 98 304 even characters as singleton intervals (push and try_from_iter reversed), class_of_char / interval_cover on every 37th character and on every character of [65000,70000]".to_string());
    }
    // overlapping pairs for try_from_iter: all pairs of intervals
    if part == 0 {
        for &a in &queries {
            for &b in &queries {
                let mut o = Outcome::default();
                check_from_iter(&[a, b], &mut o);
                sink.case(&o, false, || format!("try_from_iter {} {}", show_iv(a), show_iv(b)));
            }
        }
        sink.stats.exhaustive_spaces.push(format!(
            "all {} partitions (sets of disjoint intervals) on the universe [0,{n}) u middle u (MAX-{n},MAX] x all {} query intervals x all {} probe characters; all ordered pairs of intervals for try_from_iter",
            all.len(),
            queries.len(),
            chars.len()
        ));
        let s = &all[all.len() / 2];
        sink.stats.samples.push(format!("[enum] partition {} query {}", show_part(s), show_iv(queries[queries.len() / 3])));
    }
}
