//! C06 — string search / substring / replace functions follow SMT-LIB 2.6. Oracle R7.

use crate::atoms::show_str;
use crate::runner::{Cx, EnumSink, Outcome};
use crate::smtref as r7;
use crate::tape::{fnv, Tape};
use aws_smt_strings::smt_strings::*;

fn smt(s: &[u32]) -> SmtString {
    SmtString::from(s)
}
fn vec_of(s: &SmtString) -> Vec<u32> {
    s.as_ref().to_vec()
}

pub fn int_candidates(len: usize) -> Vec<i32> {
    let mut v: Vec<i32> = (-2..=(len as i32 + 2)).collect();
    v.extend([i32::MIN, i32::MIN + 1, i32::MAX - 1, i32::MAX]);
    v
}

/// all checks on the triple (s, t, u) and the integers (i, n)
pub fn check_tuple(s: &[u32], t: &[u32], u: &[u32], ints: &[i32], lens: &[i32], o: &mut Outcome) {
    let (cs, ct, cu) = (smt(s), smt(t), smt(u));
    o.evals += 8;
    // str.++ / str.len
    let got = vec_of(&str_concat(&cs, &ct));
    if got != r7::concat(s, t) {
        o.fail("C06/concat", format!("str_concat({},{}) = {}", show_str(s), show_str(t), show_str(&got)));
    }
    if str_len(&cs) as usize != s.len() {
        o.fail("C06/len", format!("str_len({}) = {}", show_str(s), str_len(&cs)));
    }
    // prefixof / suffixof / contains
    if str_prefixof(&ct, &cs) != r7::prefixof(t, s) {
        o.fail("C06/prefixof", format!("str_prefixof({},{}) = {}", show_str(t), show_str(s), str_prefixof(&ct, &cs)));
    }
    if str_suffixof(&ct, &cs) != r7::suffixof(t, s) {
        o.fail("C06/suffixof", format!("str_suffixof({},{}) = {}", show_str(t), show_str(s), str_suffixof(&ct, &cs)));
    }
    if str_contains(&cs, &ct) != r7::contains(s, t) {
        o.fail("C06/contains", format!("str_contains({},{}) = {}", show_str(s), show_str(t), str_contains(&cs, &ct)));
    }
    // replace / replace_all
    let got = vec_of(&str_replace(&cs, &ct, &cu));
    let exp = r7::replace(s, t, u);
    if got != exp {
        o.fail("C06/replace", format!("str_replace({},{},{}) = {}, expected {}", show_str(s), show_str(t), show_str(u), show_str(&got), show_str(&exp)));
    }
    let got = vec_of(&str_replace_all(&cs, &ct, &cu));
    let exp = r7::replace_all(s, t, u);
    if got != exp {
        o.fail("C06/replace_all", format!("str_replace_all({},{},{}) = {}, expected {}", show_str(s), show_str(t), show_str(u), show_str(&got), show_str(&exp)));
    }
    for &i in ints {
        o.evals += 2;
        // str.at
        let got = vec_of(&str_at(&cs, i));
        if got != r7::at(s, i as i64) {
            o.fail("C06/at", format!("str_at({},{}) = {}", show_str(s), i, show_str(&got)));
        }
        // str.indexof
        let got = str_indexof(&cs, &ct, i) as i64;
        let exp = r7::indexof(s, t, i as i64);
        if got != exp {
            let class = if t.is_empty() && i as i64 == s.len() as i64 { "C06/indexof/empty-pattern-at-length" } else { "C06/indexof" };
            o.fail(class, format!("str_indexof({},{},{}) = {}, expected {}", show_str(s), show_str(t), i, got, exp));
        }
        for &n in lens {
            o.evals += 1;
            let got = vec_of(&str_substr(&cs, i, n));
            let exp = r7::substr(s, i as i64, n as i64);
            if got != exp {
                o.fail("C06/substr", format!("str_substr({},{},{}) = {}, expected {}", show_str(s), i, n, show_str(&got), show_str(&exp)));
            }
        }
    }
}

fn nontrivial(s: &[u32], t: &[u32], ints: &[i32]) -> bool {
    (!t.is_empty() && r7::contains(s, t)) || ints.iter().any(|&i| (i as i64).abs() <= 1 || (i as i64 - s.len() as i64).abs() <= 1)
}

pub fn run(tape: &[u8], cx: &Cx) -> Outcome {
    let mut t = Tape::new(tape);
    // a, b, c, the alphabet's ends, and the code points that a lossy detour through Rust strings
    // would confuse (surrogates are SMT characters but not Unicode scalar values; U+FFFD replaces them)
    // (and characters that agree with 'a' / 'b' on their low 8 or 16 bits: a comparison of truncated
    // characters finds occurrences that are not there)
    let alpha: [u32; 11] = [0x61, 0x62, 0x63, 0, 0x2FFFF, 0xFFFD, 0xD800, 0xDFFF, 0x161, 0x10061, 0x10062];
    let gen_str = |t: &mut Tape, max: usize| -> Vec<u32> {
        let n = t.choose(max + 1);
        (0..n).map(|_| alpha[t.weighted(&[12, 10, 6, 2, 2, 2, 2, 1, 2, 3, 2])]).collect()
    };
    let mut s = gen_str(&mut t, 12);
    // an eighth of the cases: a long subject made of a repeated short block with a few perturbations
    // (search loops that skip ahead, block-wise comparisons, lengths beyond 255)
    let long_mode = t.bool_p(32);
    if long_mode {
        let block = {
            let b = gen_str(&mut t, 3);
            if b.is_empty() {
                vec![0x61]
            } else {
                b
            }
        };
        let target = 40 + t.choose(300);
        s = Vec::with_capacity(target + 4);
        while s.len() < target {
            s.extend(&block);
        }
        for _ in 0..t.choose(4) {
            let k = t.choose(s.len());
            s[k] = alpha[t.choose(3)];
        }
    }
    // pattern: a substring of s, an overlapping repetition, or independent
    let p: Vec<u32> = match t.weighted(&[4, 3, 2]) {
        0 if !s.is_empty() => {
            let i = t.choose(s.len());
            // long mode: pattern lengths up to 135, a third of them next to a machine-word size
            // (search code that packs the pattern into words, bit-parallel automata, hashed windows)
            let cap = if long_mode { 135 } else { 4 };
            let mut l = t.choose(s.len() - i + 1).min(cap);
            if long_mode && t.bool_p(85) {
                let w = t.pick(&[7usize, 8, 9, 15, 16, 17, 31, 32, 33, 63, 64, 65, 127, 128, 129]);
                if w <= s.len() - i {
                    l = w;
                }
            }
            let mut p = s[i..i + l].to_vec();
            // sometimes one character off (a near miss that shares a long prefix with a real occurrence)
            if long_mode && !p.is_empty() && t.bool_p(80) {
                let k = t.choose(p.len());
                p[k] = alpha[t.choose(3)];
            }
            p
        }
        1 => gen_str(&mut t, 3),
        _ => {
            let c = alpha[t.choose(3)];
            vec![c; 1 + t.choose(3)]
        }
    };
    // replacement text: may contain the pattern
    let u: Vec<u32> = match t.weighted(&[3, 2, 2]) {
        0 => gen_str(&mut t, 3),
        1 => {
            let mut v = p.clone();
            v.extend(gen_str(&mut t, 2));
            v
        }
        _ => vec![],
    };
    let len = s.len() as i32;
    let gen_int = |t: &mut Tape| -> i32 {
        match t.weighted(&[4, 4, 2, 1]) {
            0 => t.u32_in(0, 3) as i32 - 2 + if t.flag() { len } else { 0 },
            1 => t.u32_in(0, (len + 1) as u32) as i32,
            2 => t.pick(&[i32::MIN, -1, i32::MAX, i32::MAX - 1, len, len + 1, len - 1]),
            _ => t.u32_in(0, u32::MAX) as i32,
        }
    };
    let ints: Vec<i32> = (0..3).map(|_| gen_int(&mut t)).collect();
    let lens: Vec<i32> = (0..2).map(|_| gen_int(&mut t)).collect();
    let mut o = Outcome::default();
    o.digest = fnv(format!("{:?}{:?}{:?}{:?}{:?}", s, p, u, ints, lens).as_bytes());
    if cx.render {
        o.render = format!("s = {}, t = {}, u = {}, ints {:?}, lengths {:?}", show_str(&s), show_str(&p), show_str(&u), ints, lens);
    }
    check_tuple(&s, &p, &u, &ints, &lens, &mut o);
    o.nontrivial = nontrivial(&s, &p, &ints);
    if !p.is_empty() && r7::contains(&s, &p) {
        o.tag("pattern-occurs");
    }
    if p.is_empty() {
        o.tag("empty-pattern");
    }
    if long_mode {
        o.tag("long-subject");
    }
    if r7::replace_all(&s, &p, &u) != r7::replace(&s, &p, &u) {
        o.tag(">=2-occurrences");
    }
    o
}

fn all_strings(alpha: &[u32], max_len: usize) -> Vec<Vec<u32>> {
    let mut out: Vec<Vec<u32>> = vec![vec![]];
    let mut frontier: Vec<Vec<u32>> = vec![vec![]];
    for _ in 0..max_len {
        let mut next = Vec::new();
        for w in &frontier {
            for &c in alpha {
                let mut x = w.clone();
                x.push(c);
                next.push(x);
            }
        }
        out.extend(next.iter().cloned());
        frontier = next;
    }
    out
}

pub fn enumerate(thorough: bool, part: usize, parts: usize, sink: &mut EnumSink) {
    // space A: all triples of strings over {a,b} of length <= 4 (5 thorough for the subject)
    let spaces: Vec<(Vec<Vec<u32>>, Vec<Vec<u32>>, String)> = vec![
        (
            all_strings(&[0x61, 0x62], if thorough { 6 } else { 4 }),
            all_strings(&[0x61, 0x62], if thorough { 4 } else { 3 }),
            format!("subject over {{a,b}} of length <= {}, pattern and replacement over {{a,b}} of length <= {}", if thorough { 6 } else { 4 }, if thorough { 4 } else { 3 }),
        ),
        (all_strings(&[0x61, 0x62, 0x63], 3), all_strings(&[0x61, 0x62, 0x63], 2), "subject over {a,b,c} of length <= 3, pattern and replacement of length <= 2".to_string()),
        (all_strings(&[0x61, 0xFFFD, 0xD800], 3), all_strings(&[0x61, 0xFFFD, 0xD800], 2), "subject over {a, U+FFFD, 0xD800} of length <= 3, pattern and replacement of length <= 2".to_string()),
        (all_strings(&[0x61, 0x10061, 0x161], 3), all_strings(&[0x61, 0x10061, 0x161], 2), "subject over {a, 0x10061, 0x161} (equal low 16 / 8 bits) of length <= 3, pattern and replacement of length <= 2".to_string()),
        (all_strings(&[0x61, 0x62, 0x41, 0x20041], 4), all_strings(&[0x61, 0x62, 0x41, 0x20041], 2), "subject over {a, b, A, 0x20041} (neighbouring characters next to characters that differ by 2^17: packed pairs with too few bits) of length <= 4, pattern and replacement of length <= 2".to_string()),
    ];
    for (subjects, others, desc) in &spaces {
        for (idx, s) in subjects.iter().enumerate() {
            if idx % parts != part {
                continue;
            }
            let ints = int_candidates(s.len());
            let lens: Vec<i32> = vec![-1, 0, 1, 2, s.len() as i32, s.len() as i32 + 1, i32::MAX, i32::MIN];
            for t in others {
                for u in others {
                    let mut o = Outcome::default();
                    check_tuple(s, t, u, &ints, &lens, &mut o);
                    sink.case(&o, !t.is_empty() && r7::contains(s, t), || format!("s = {}, t = {}, u = {}, all i in {:?}, all n in {:?}", show_str(s), show_str(t), show_str(u), ints, lens));
                }
            }
            if sink.failed() {
                return;
            }
        }
        if part == 0 {
            sink.stats.exhaustive_spaces.push(format!("{}; every integer in [-2,|s|+2] u {{i32::MIN, MIN+1, MAX-1, MAX}} as index, 8 length values", desc));
        }
    }
    // near-unary family: s = a^n b a^tail, p = a^m b (one occurrence of b): the first occurrence of p is at
    // n - m when m <= n, there is none otherwise — known in closed form, so n and m can be far beyond the
    // sizes a quadratic oracle affords (skip tables, failure functions, hashed windows and "give up and
    // switch algorithm" budgets all depend on long partial matches and long borders)
    {
        let mut fam: Vec<(usize, usize, usize)> = Vec::new();
        for tail in 0..=300usize {
            fam.push((200, 50, tail));
        }
        for &(n, m) in &[(40usize, 33usize), (300, 299), (300, 300), (300, 301), (1000, 64), (5000, 4097), (70_001, 70_000), (66_000, 65_536), (131_073, 131_072), (200_000, 3)] {
            for tail in [0usize, 1, 34, 70] {
                fam.push((n, m, tail));
            }
        }
        for (idx, &(n, m, tail)) in fam.iter().enumerate() {
            if idx % parts != part {
                continue;
            }
            let mut o = Outcome::default();
            let (a, b, x) = (0x61u32, 0x62u32, 0x78u32);
            let mut sv = vec![a; n];
            sv.push(b);
            sv.extend(std::iter::repeat(a).take(tail));
            let mut pv = vec![a; m];
            pv.push(b);
            let (cs, cp, cu) = (smt(&sv), smt(&pv), smt(&[x]));
            let exp_idx: i64 = if m <= n { (n - m) as i64 } else { -1 };
            let what = || format!("s = a^{} b a^{}, p = a^{} b", n, tail, m);
            o.evals += 6;
            let got = crate::runner::catch(|| (str_indexof(&cs, &cp, 0) as i64, str_contains(&cs, &cp), vec_of(&str_replace(&cs, &cp, &cu)), vec_of(&str_replace_all(&cs, &cp, &cu)), str_indexof(&cs, &cp, exp_idx.max(0) as i32) as i64, str_indexof(&cs, &cp, (exp_idx.max(0) + 1) as i32) as i64));
            match got {
                Err(msg) => o.fail("C06/panics", format!("{}: {}", what(), msg)),
                Ok((i0, has, rep, rep_all, i_at, i_after)) => {
                    let exp_rep: Vec<u32> = if exp_idx >= 0 {
                        let mut v = vec![a; n - m];
                        v.push(x);
                        v.extend(std::iter::repeat(a).take(tail));
                        v
                    } else {
                        sv.clone()
                    };
                    if i0 != exp_idx || i_at != exp_idx {
                        o.fail("C06/indexof", format!("{}: str_indexof(s, p, 0) = {}, str_indexof(s, p, {}) = {}, expected {}", what(), i0, exp_idx.max(0), i_at, exp_idx));
                    } else if i_after != -1 {
                        o.fail("C06/indexof", format!("{}: str_indexof(s, p, {}) = {}, expected -1", what(), exp_idx.max(0) + 1, i_after));
                    } else if has != (exp_idx >= 0) {
                        o.fail("C06/contains", format!("{}: str_contains = {}", what(), has));
                    } else if rep != exp_rep {
                        o.fail("C06/replace", format!("{}: str_replace(s, p, \"x\") has length {} (expected {})", what(), rep.len(), exp_rep.len()));
                    } else if rep_all != exp_rep {
                        o.fail("C06/replace_all", format!("{}: str_replace_all(s, p, \"x\") has length {} (expected {})", what(), rep_all.len(), exp_rep.len()));
                    }
                }
            }
            sink.case(&o, true, || what());
            if sink.failed() {
                return;
            }
        }
        if part == 0 {
            sink.stats.exhaustive_spaces.push("near-unary family s = a^n b a^tail, p = a^m b with the closed-form answer: (n,m) = (200,50) for every tail in 0..=300; (40,33) (300,299..301) (1000,64) (5000,4097) (70001,70000) (66000,65536) (131073,131072) (200000,3) with tails 0, 1, 34, 70".to_string());
        }
    }
    // size-budget family: a long subject, a short pattern that occurs 0, 1 or 2 times, and a long replacement,
    // with |s|/|p| * |r| far beyond MAX_LENGTH = 2^31-1 while the actual result has a few hundred thousand
    // characters: a result-size estimate that counts possible instead of actual occurrences (to pre-allocate,
    // or to "fail early") refuses or mis-sizes a perfectly legal result
    {
        let (a, b, c) = (0x61u32, 0x62u32, 0x63u32);
        let mut fam: Vec<(usize, usize, usize, usize)> = Vec::new(); // (|s|, |p|, |r|, occurrences)
        for &(n, pl, m) in &[(70_000usize, 1usize, 40_000usize), (50_000, 2, 100_000), (1_000_000, 1, 3_000), (66_000, 3, 131_072)] {
            for k in 0..=2usize {
                fam.push((n, pl, m, k));
            }
        }
        for (idx, &(n, pl, m, k)) in fam.iter().enumerate() {
            if idx % parts != part {
                continue;
            }
            // p = b^pl; occurrences planted at n/3 and 2n/3
            let pv = vec![b; pl];
            let mut sv = vec![a; n];
            let spots: Vec<usize> = (1..=k).map(|j| j * n / 3).collect();
            for &q in &spots {
                for z in 0..pl {
                    sv[q + z] = b;
                }
            }
            let rv = vec![c; m];
            let what = || format!("s = a^{} with b^{} planted {} time(s), p = b^{}, r = c^{}", n, pl, k, pl, m);
            let mut o = Outcome::default();
            o.evals += 3;
            match crate::runner::catch(|| {
                let (cs, cp, cr) = (smt(&sv), smt(&pv), smt(&rv));
                (vec_of(&str_replace(&cs, &cp, &cr)), vec_of(&str_replace_all(&cs, &cp, &cr)), str_indexof(&cs, &cp, 0) as i64)
            }) {
                Err(msg) => o.fail("C06/panics", format!("{}: {}", what(), msg)),
                Ok((rep, rep_all, i0)) => {
                    let exp = r7::replace(&sv, &pv, &rv);
                    let exp_all = r7::replace_all(&sv, &pv, &rv);
                    assert_eq!(exp_all.len(), n - k * pl + k * m);
                    if rep != exp {
                        o.fail("C06/replace", format!("{}: str_replace has length {} (expected {})", what(), rep.len(), exp.len()));
                    } else if rep_all != exp_all {
                        o.fail("C06/replace_all", format!("{}: str_replace_all has length {} (expected {})", what(), rep_all.len(), exp_all.len()));
                    } else if i0 != spots.first().map(|&q| q as i64).unwrap_or(-1) {
                        o.fail("C06/indexof", format!("{}: str_indexof(s, p, 0) = {}", what(), i0));
                    }
                }
            }
            sink.case(&o, true, || what());
            if sink.failed() {
                return;
            }
        }
        if part == 0 {
            sink.stats.exhaustive_spaces.push("size-budget family: (|s|,|p|,|r|) = (70000,1,40000) (50000,2,100000) (1000000,1,3000) (66000,3,131072), the pattern planted 0, 1 and 2 times: replace, replace_all and indexof against R7 (|s|/|p|*|r| exceeds 2^31-1, the result does not)".to_string());
        }
    }
    // aggregate-collision family: a window W of the subject and a pattern P of the same length that agree on
    // their first and last characters and on every lossy summary a "fast" comparison might accumulate instead
    // of comparing position by position — the same multiset of characters (sums, xors, sorted copies, rolling
    // hashes without a verification step), the same xor of all characters, position-wise differences x^y whose
    // sum is 0 modulo 2^8 / 2^16 / 2^32 (a wrapped accumulator) — while P does not occur in the subject at all
    {
        let (a, b) = (0x61u32, 0x62u32);
        let mut pairs: Vec<(String, Vec<u32>, Vec<u32>)> = Vec::new();
        // interior permuted
        pairs.push(("interior permuted".into(), vec![a, a, b, 0x63, a], vec![a, 0x63, b, a, a]));
        pairs.push(("interior reversed (length 66)".into(), (0..66u32).map(|k| 0x100 + k).collect(), {
            let mut v: Vec<u32> = (0..66u32).map(|k| 0x100 + k).collect();
            v[1..65].reverse();
            v
        }));
        // the same xor mask applied at two positions: the xor of all differences vanishes
        for &mask in &[1u32, 0x80, 0x8000, 0x20000] {
            let w: Vec<u32> = vec![a, 0x1000, 0x1001, 0x1002, b];
            let mut p = w.clone();
            p[1] ^= mask;
            p[3] ^= mask;
            pairs.push((format!("two positions xored with {:#x}", mask), w, p));
        }
        // differences x^y that add up to 2^8, 2^16 and 2^32
        for &(bits, d, count) in &[(8u32, 0x80u32, 2usize), (16, 0x8000, 2), (16, 0x4000, 4), (8, 1, 256), (16, 1, 65536)] {
            let mut w = vec![a];
            w.extend(std::iter::repeat(0u32).take(count));
            w.push(b);
            let mut p = vec![a];
            p.extend(std::iter::repeat(d).take(count));
            p.push(b);
            pairs.push((format!("{} positions differing by {:#x}: differences sum to 2^{}", count, d, bits), w, p));
        }
        {
            // 16384 * 0x3FFFF + 0x4000 = 2^32
            let mut w = vec![a];
            w.extend(std::iter::repeat(0x2AAAAu32).take(16384));
            w.push(0x4000);
            w.push(b);
            let mut p = vec![a];
            p.extend(std::iter::repeat(0x15555u32).take(16384));
            p.push(0);
            p.push(b);
            pairs.push(("16384 positions 0x2AAAA vs 0x15555 and one 0x4000 vs 0: the xor differences sum to 2^32".into(), w, p));
            // 21846 positions 0x2FFFF vs 0 (difference 0x2FFFF) : 21846 * 0x2FFFF = 2^32 + 0x1AAAA... use plain differences x - y instead
            let mut w = vec![a];
            w.extend(std::iter::repeat(0x20000u32).take(32768));
            w.push(b);
            let mut p = vec![a];
            p.extend(std::iter::repeat(0u32).take(32768));
            p.push(b);
            pairs.push(("32768 positions 0x20000 vs 0: the differences (xor or minus) sum to 2^32".into(), w, p));
        }
        for (idx, (desc, w, p)) in pairs.iter().enumerate() {
            if idx % parts != part {
                continue;
            }
            assert!(w.len() == p.len() && w != p);
            let mut subjects: Vec<Vec<u32>> = vec![w.clone()];
            let mut s2 = vec![b];
            s2.extend(w);
            s2.push(a);
            subjects.push(s2);
            let mut s3 = w.clone();
            s3.extend(w);
            subjects.push(s3);
            // and one subject in which the pattern does occur, after the colliding window
            let mut s4 = w.clone();
            s4.extend(p);
            subjects.push(s4);
            for s in &subjects {
                let mut o = Outcome::default();
                let ints = [0i32, 1, (s.len() - p.len()) as i32, s.len() as i32];
                match crate::runner::catch(|| {
                    let mut o2 = Outcome::default();
                    check_tuple(s, p, &[0x78], &ints, &[], &mut o2);
                    o2
                }) {
                    Ok(o2) => o = o2,
                    Err(msg) => o.fail("C06/panics", format!("{}: {}", desc, msg)),
                }
                sink.case(&o, true, || format!("aggregate collision ({}), |s| = {}, |t| = {}", desc, s.len(), p.len()));
                if sink.failed() {
                    return;
                }
            }
        }
        if part == 0 {
            sink.stats.exhaustive_spaces.push(format!("aggregate-collision family: {} (window, pattern) pairs of equal length with equal ends and equal lossy summaries (permuted interior; one xor mask at two positions; position-wise differences summing to 2^8, 2^16, 2^32), each in 4 subjects (window alone, embedded, doubled, followed by the pattern), all ten functions against R7", pairs.len()));
        }
    }
    if part == 0 {
        sink.stats.samples.push("[enum] s = \"abab\", t = \"ab\", u = \"b\", i in [-2..6, MIN, MIN+1, MAX-1, MAX], n in [-1,0,1,2,4,5,MAX,MIN]".to_string());
    }
}
