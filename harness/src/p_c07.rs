//! C07 — hash-consing: identical constructions give the identical term, under any history.
//! Stateful / model-based: a case is an operation sequence on ONE manager; every slot carries the
//! term and its reference language, so terms of unknown syntax (derivatives) still have a known meaning.

use crate::atoms::{show_char, show_str, Atoms};
use crate::bisim::{bisim_term, deriv_closure, ptr, BisimResult};
use crate::prog::{build_ins, build_ins_wrapped, render_ins, smt, Ins, Prog, ProgCfg};
use crate::rdfa::Dfa;
use crate::runner::{catch, Cx, Outcome};
use crate::rx;
use crate::tape::{fnv, Tape};
use aws_smt_strings::regular_expressions::{ReManager, RegLan};
use aws_smt_strings::smt_regular_expressions as w;

#[derive(Clone, Debug)]
enum Op {
    Build(Ins),
    Rebuild(usize),
    Deriv(usize, u32),
    StrDeriv(usize, Vec<u32>),
    Compile(usize),
    IsEmpty(usize),
    GetString(usize),
    Member(usize, Vec<u32>),
    Noise(usize, Vec<Ins>),
}

fn render_op(op: &Op) -> String {
    match op {
        Op::Build(i) => format!("build {}", render_ins(i)),
        Op::Rebuild(k) => format!("rebuild r{}", k),
        Op::Deriv(k, c) => format!("deriv(r{},{})", k, show_char(*c)),
        Op::StrDeriv(k, s) => format!("str_deriv(r{},{})", k, show_str(s)),
        Op::Compile(k) => format!("compile(r{})", k),
        Op::IsEmpty(k) => format!("is_empty(r{})", k),
        Op::GetString(k) => format!("get_string(r{})", k),
        Op::Member(k, s) => format!("str_in_re({},r{})", show_str(s), k),
        Op::Noise(_, v) => format!("noise x{}", v.len()),
    }
}

struct Slot {
    term: RegLan,
    dfa: Dfa,
    origin: Option<Ins>,
    /// number of allocating operations performed before this slot was created
    born: usize,
}

fn gen_ops(t: &mut Tape, atoms: &Atoms, wrappers: bool) -> Vec<Op> {
    let cfg = ProgCfg { small_bound: 3, ..ProgCfg::default() };
    let n = 2 + t.choose(14);
    let mut ops: Vec<Op> = Vec::new();
    let mut nslots = 0usize;
    for _ in 0..n {
        if nslots == 0 {
            ops.push(Op::Build(Prog::decode_leaf(t, atoms)));
            nslots += 1;
            continue;
        }
        let k = t.choose(nslots);
        let kind = if wrappers { t.weighted(&[10, 5, 0, 0, 0, 0, 0, 5, 2]) } else { t.weighted(&[10, 5, 4, 2, 2, 1, 1, 2, 2]) };
        let op = match kind {
            0 => {
                nslots += 1;
                if nslots >= 3 && t.bool_p(100) {
                    // a union / intersection of two different earlier slots in either order: the
                    // constructors sort their operands by id, so both orders matter
                    let a = t.choose(nslots - 1);
                    let mut b = t.choose(nslots - 2);
                    if b >= a {
                        b += 1;
                    }
                    Op::Build(match t.choose(4) {
                        0 => Ins::Union(a, b),
                        1 => Ins::Inter(a, b),
                        2 => Ins::UnionList(vec![a, b, t.choose(nslots - 1)]),
                        _ => Ins::InterList(vec![a, b, t.choose(nslots - 1)]),
                    })
                } else {
                    Op::Build(Prog::decode_ins(t, atoms, &cfg, false, nslots - 1))
                }
            }
            1 => Op::Rebuild(k),
            2 => {
                nslots += 1;
                Op::Deriv(k, atoms.pick_char(t))
            }
            3 => {
                nslots += 1;
                Op::StrDeriv(k, crate::prog::gen_string(t, atoms, 3))
            }
            4 => Op::Compile(k),
            5 => Op::IsEmpty(k),
            6 => Op::GetString(k),
            7 => Op::Member(k, crate::prog::gen_string(t, atoms, 5)),
            _ => {
                let m = 1 + t.choose(6);
                let mut v = Vec::new();
                for j in 0..m {
                    v.push(if j == 0 { Prog::decode_leaf(t, atoms) } else { Prog::decode_ins(t, atoms, &cfg, false, j) });
                }
                Op::Noise(k, v)
            }
        };
        ops.push(op);
    }
    ops
}

/// every pair of slots: == iff same object; same object => same reference language
fn check_pairs(slots: &[Slot], o: &mut Outcome, when: &str) -> bool {
    for i in 0..slots.len() {
        for j in 0..i {
            o.evals += 1;
            let same = ptr(slots[i].term) == ptr(slots[j].term);
            let eq = slots[i].term == slots[j].term;
            if same != eq {
                o.fail("C07/eq-differs-from-identity", format!("{}: r{} == r{} is {} but pointer identity is {}", when, i, j, eq, same));
                return false;
            }
            if same && !slots[i].dfa.equiv(&slots[j].dfa) {
                o.fail(
                    "C07/two-meanings-one-term",
                    format!("{}: r{} and r{} are the same term {} but were built from constructions with different languages", when, i, j, slots[i].term),
                );
                return false;
            }
        }
    }
    true
}

fn check_language(m: &mut ReManager, atoms: &Atoms, s: &Slot, idx: usize, when: &str, o: &mut Outcome) -> bool {
    o.evals += 1;
    match bisim_term(m, atoms, &s.dfa, s.dfa.start, s.term, 600) {
        BisimResult::Differ { word, crate_says, reference_says } => {
            o.fail(
                "C07/language-depends-on-history",
                format!("{}: r{} (term {}): membership of {} is {} but the construction denotes {}", when, idx, s.term, show_str(&word), crate_says, reference_says),
            );
            false
        }
        BisimResult::Capped => {
            o.tag("bisim-capped");
            true
        }
        _ => true,
    }
}

pub fn run(tape: &[u8], cx: &Cx) -> Outcome {
    let mut t = Tape::new(tape);
    let wrappers = t.bool_p(50);
    let atoms = Atoms::decode(&mut t, 5);
    let ops = gen_ops(&mut t, &atoms, wrappers);
    // a third of the local histories are "lazy": new terms are not examined when they are built (no
    // derivative is taken in between), only by the operations of the history and at its end
    let lazy = !wrappers && t.bool_p(85);
    let mut o = Outcome::default();
    o.digest = fnv(format!("{}{:?}{:?}", wrappers, atoms.landmarks, ops).as_bytes());
    if cx.render {
        o.render = format!("{} landmarks={:x?}; {}", if wrappers { "[thread-local manager via wrappers]" } else { "[local ReManager]" }, atoms.landmarks, ops.iter().map(render_op).collect::<Vec<_>>().join("; "));
    }
    if wrappers {
        o.tag("wrappers");
        let a2 = atoms.clone();
        let ops2 = ops.clone();
        let r = crate::runner::spawn_user_thread(move || catch(move || interpret_wrapped(&a2, &ops2))).join().unwrap_or_else(|_| Err("wrapper thread died".into()));
        match r {
            Ok(sub) => {
                o.evals += sub.evals;
                o.fails.extend(sub.fails);
                o.nontrivial = sub.nontrivial;
                for tg in sub.tags {
                    o.tag(tg);
                }
                if let Some(d) = sub.discard {
                    return Outcome::discarded(&d);
                }
            }
            Err(msg) => {
                if rx::is_overflow(&msg, 0) {
                    return Outcome::discarded("loop-range arithmetic overflow (documented panic)");
                }
                o.fail("C07/panics", format!("operation sequence panicked: {}", msg));
            }
        }
        return o;
    }
    if lazy {
        o.tag("lazy-history");
    }
    let res = catch(|| interpret_local(&atoms, &ops, lazy));
    match res {
        Ok(sub) => {
            o.evals += sub.evals;
            o.fails.extend(sub.fails);
            o.nontrivial = sub.nontrivial;
            for tg in sub.tags {
                o.tag(tg);
            }
            if let Some(d) = sub.discard {
                return Outcome::discarded(&d);
            }
        }
        Err(msg) => {
            if rx::is_overflow(&msg, 0) {
                return Outcome::discarded("loop-range arithmetic overflow (documented panic)");
            }
            o.fail("C07/panics", format!("operation sequence panicked: {}", msg));
        }
    }
    o
}

fn interpret_local(atoms: &Atoms, ops: &[Op], lazy: bool) -> Outcome {
    let mut o = Outcome::default();
    let mut m = ReManager::new();
    let k = atoms.len();
    let helper = Prog { atoms: atoms.clone(), ins: vec![] };
    let mut slots: Vec<Slot> = Vec::new();
    let mut allocs = 0usize; // allocating operations so far
    let mut heavy_at: Vec<usize> = Vec::new(); // alloc counters at which a derivative/compile happened
    let mut rebuild_gap_ok = false;
    let mut nonmonotone = false;
    for (step, op) in ops.iter().enumerate() {
        let when = format!("after step {} ({})", step, render_op(op));
        match op {
            Op::Build(ins) => {
                let terms: Vec<RegLan> = slots.iter().map(|s| s.term).collect();
                let dfas: Vec<Dfa> = slots.iter().map(|s| s.dfa.clone()).collect();
                let term = build_ins(&mut m, ins, &terms);
                let dfa = match helper.dfa_of(ins, &dfas, k) {
                    Ok(d) => d,
                    Err(_) => return Outcome::discarded("reference DFA too big"),
                };
                match ins {
                    Ins::Union(a, b) | Ins::Inter(a, b) if a > b => nonmonotone = true,
                    Ins::UnionList(v) | Ins::InterList(v) if v.windows(2).any(|w| w[0] > w[1]) => nonmonotone = true,
                    _ => {}
                }
                allocs += 1;
                slots.push(Slot { term, dfa, origin: Some(ins.clone()), born: allocs });
                let idx = slots.len() - 1;
                // complement is an involution without fixed points
                let c = m.complement(term);
                let cc = m.complement(c);
                o.evals += 2;
                if ptr(cc) != ptr(term) || cc != term {
                    o.fail("C07/complement-not-involution", format!("{}: complement(complement(r{})) is not r{}", when, idx, idx));
                    return o;
                }
                if ptr(c) == ptr(term) || c == term {
                    o.fail("C07/complement-fixed-point", format!("{}: complement(r{}) is r{} itself", when, idx, idx));
                    return o;
                }
                if lazy {
                    continue;
                }
                // language of the new term (history so far must not matter)
                if !check_language(&mut m, atoms, &slots[idx], idx, &when, &mut o) {
                    return o;
                }
                let cdfa = slots[idx].dfa.complement();
                let cs = Slot { term: c, dfa: cdfa, origin: None, born: allocs };
                if !check_language(&mut m, atoms, &cs, idx, &format!("{} [complement]", when), &mut o) {
                    return o;
                }
            }
            Op::Rebuild(kk) => {
                if let Some(ins) = slots[*kk].origin.clone() {
                    let terms: Vec<RegLan> = slots.iter().map(|s| s.term).collect();
                    let again = build_ins(&mut m, &ins, &terms);
                    o.evals += 1;
                    if ptr(again) != ptr(slots[*kk].term) || again != slots[*kk].term {
                        o.fail(
                            "C07/rebuild-gives-different-term",
                            format!("{}: re-issuing {} with the same argument terms gives {} (id differs) instead of the existing term {}", when, render_ins(&ins), again, slots[*kk].term),
                        );
                        return o;
                    }
                    let gap = allocs - slots[*kk].born;
                    if gap >= 3 && heavy_at.iter().any(|&h| h >= slots[*kk].born) {
                        rebuild_gap_ok = true;
                    }
                }
            }
            Op::Deriv(kk, c) => {
                let term = m.char_derivative(slots[*kk].term, *c);
                let d = &slots[*kk].dfa;
                let q = d.step(d.start, atoms.atom_of(*c));
                let dfa = d.quotient_state(q);
                allocs += 1;
                heavy_at.push(allocs);
                slots.push(Slot { term, dfa, origin: None, born: allocs });
                // complement is an involution without fixed points on derivative terms too
                let c2 = m.complement(term);
                let cc = m.complement(c2);
                o.evals += 2;
                if ptr(cc) != ptr(term) || ptr(c2) == ptr(term) {
                    o.fail(if ptr(c2) == ptr(term) { "C07/complement-fixed-point" } else { "C07/complement-not-involution" }, format!("{}: on the derivative term {}", when, term));
                    return o;
                }
            }
            Op::StrDeriv(kk, s) => {
                let term = m.str_derivative(slots[*kk].term, &smt(s));
                let d = &slots[*kk].dfa;
                let mut q = d.start;
                for &c in s {
                    q = d.step(q, atoms.atom_of(c));
                }
                let dfa = d.quotient_state(q);
                allocs += 1;
                heavy_at.push(allocs);
                slots.push(Slot { term, dfa, origin: None, born: allocs });
            }
            Op::Compile(kk) | Op::IsEmpty(kk) | Op::GetString(kk) => {
                let e = slots[*kk].term;
                if deriv_closure(&mut m, atoms, e, 300).is_some() {
                    match op {
                        Op::Compile(_) => {
                            let _ = m.compile(e);
                        }
                        Op::IsEmpty(_) => {
                            o.evals += 1;
                            let got = m.is_empty_re(e);
                            if got != slots[*kk].dfa.is_empty_lang() {
                                o.fail("C07/language-depends-on-history", format!("{}: is_empty_re(r{}) = {}", when, kk, got));
                                return o;
                            }
                        }
                        _ => {
                            let _ = m.get_string(e);
                        }
                    }
                    allocs += 1;
                    heavy_at.push(allocs);
                }
            }
            Op::Member(kk, s) => {
                o.evals += 1;
                let got = m.str_in_re(&smt(s), slots[*kk].term);
                let d = &slots[*kk].dfa;
                let w: Vec<usize> = s.iter().map(|&c| atoms.atom_of(c)).collect();
                if got != d.accepts(&w) {
                    o.fail("C07/language-depends-on-history", format!("{}: str_in_re({}, r{}) = {}", when, show_str(s), kk, got));
                    return o;
                }
                allocs += 1;
            }
            Op::Noise(_, v) => {
                let mut tmp: Vec<RegLan> = Vec::new();
                for ins in v {
                    let r = build_ins(&mut m, ins, &tmp);
                    tmp.push(r);
                }
                allocs += v.len();
            }
        }
        if !check_pairs(&slots, &mut o, &when) {
            return o;
        }
    }
    // after the whole history: every construction, re-issued, gives the very same term, with the same language
    for idx in 0..slots.len() {
        if let Some(ins) = slots[idx].origin.clone() {
            let terms: Vec<RegLan> = slots.iter().map(|s| s.term).collect();
            let again = build_ins(&mut m, &ins, &terms);
            o.evals += 1;
            if ptr(again) != ptr(slots[idx].term) {
                o.fail("C07/rebuild-gives-different-term", format!("at the end: re-issuing r{} = {} gives {} instead of {}", idx, render_ins(&ins), again, slots[idx].term));
                return o;
            }
            if allocs - slots[idx].born >= 3 && heavy_at.iter().any(|&h| h >= slots[idx].born) {
                rebuild_gap_ok = true;
            }
        }
        if !check_language(&mut m, atoms, &slots[idx], idx, "at the end of the history", &mut o) {
            return o;
        }
    }
    // the same constructions on a fresh manager denote the same languages (history independence)
    let mut fresh = ReManager::new();
    let mut fterms: Vec<RegLan> = Vec::new();
    let mut ok = true;
    for s in &slots {
        match &s.origin {
            Some(ins) if ok => {
                let r = build_ins(&mut fresh, ins, &fterms);
                fterms.push(r);
            }
            _ => {
                // derivative slots cannot be rebuilt syntactically on another manager: stop there
                ok = false;
            }
        }
        if !ok {
            break;
        }
        let idx = fterms.len() - 1;
        let fs = Slot { term: fterms[idx], dfa: s.dfa.clone(), origin: None, born: 0 };
        if !check_language(&mut fresh, atoms, &fs, idx, "on a fresh manager", &mut o) {
            return o;
        }
    }
    o.nontrivial = rebuild_gap_ok && nonmonotone;
    if rebuild_gap_ok {
        o.tag("rebuild-after-history");
    }
    if nonmonotone {
        o.tag("non-monotone-operand-order");
    }
    if !heavy_at.is_empty() {
        o.tag("has-derivative/compile");
    }
    o
}

/// the same through the SMT-LIB-named wrappers (thread-local manager; no derivative API there)
fn interpret_wrapped(atoms: &Atoms, ops: &[Op]) -> Outcome {
    let mut o = Outcome::default();
    let k = atoms.len();
    let helper = Prog { atoms: atoms.clone(), ins: vec![] };
    let mut slots: Vec<Slot> = Vec::new();
    let mut allocs = 0usize;
    let mut heavy = false;
    let mut rebuild_gap_ok = false;
    let mut nonmonotone = false;
    for (step, op) in ops.iter().enumerate() {
        let when = format!("after step {} ({})", step, render_op(op));
        match op {
            Op::Build(ins) => {
                let terms: Vec<RegLan> = slots.iter().map(|s| s.term).collect();
                let dfas: Vec<Dfa> = slots.iter().map(|s| s.dfa.clone()).collect();
                let term = build_ins_wrapped(ins, &terms);
                let dfa = match helper.dfa_of(ins, &dfas, k) {
                    Ok(d) => d,
                    Err(_) => return Outcome::discarded("reference DFA too big"),
                };
                match ins {
                    Ins::Union(a, b) | Ins::Inter(a, b) if a > b => nonmonotone = true,
                    Ins::UnionList(v) | Ins::InterList(v) if v.windows(2).any(|w| w[0] > w[1]) => nonmonotone = true,
                    _ => {}
                }
                allocs += 1;
                let c = w::re_comp(term);
                let cc = w::re_comp(c);
                o.evals += 2;
                if ptr(cc) != ptr(term) || ptr(c) == ptr(term) {
                    o.fail("C07/complement-not-involution", format!("{}: re_comp(re_comp(e)) is not e, or re_comp(e) is e", when));
                    return o;
                }
                // the empty string and a shortest member / non-member
                let s = Slot { term, dfa, origin: Some(ins.clone()), born: allocs };
                for word in [s.dfa.shortest_word(), s.dfa.complement().shortest_word()].into_iter().flatten() {
                    let concrete: Vec<u32> = word.iter().map(|&x| atoms.atoms[x].0).collect();
                    o.evals += 1;
                    if w::str_in_re(&smt(&concrete), term) != s.dfa.accepts(&word) {
                        o.fail("C07/language-depends-on-history", format!("{}: str_in_re({}, new term) wrong", when, show_str(&concrete)));
                        return o;
                    }
                }
                heavy = true;
                slots.push(s);
            }
            Op::Rebuild(kk) => {
                if let Some(ins) = slots[*kk].origin.clone() {
                    let terms: Vec<RegLan> = slots.iter().map(|s| s.term).collect();
                    let again = build_ins_wrapped(&ins, &terms);
                    o.evals += 1;
                    if ptr(again) != ptr(slots[*kk].term) || again != slots[*kk].term {
                        o.fail("C07/rebuild-gives-different-term", format!("{}: re-issuing {} through the wrappers gives a different term", when, render_ins(&ins)));
                        return o;
                    }
                    if allocs - slots[*kk].born >= 3 && heavy {
                        rebuild_gap_ok = true;
                    }
                }
            }
            Op::Member(kk, s) => {
                o.evals += 1;
                let got = w::str_in_re(&smt(s), slots[*kk].term);
                let d = &slots[*kk].dfa;
                let word: Vec<usize> = s.iter().map(|&c| atoms.atom_of(c)).collect();
                if got != d.accepts(&word) {
                    o.fail("C07/language-depends-on-history", format!("{}: str_in_re({}, r{}) = {}", when, show_str(s), kk, got));
                    return o;
                }
                allocs += 1;
                heavy = true;
            }
            Op::Noise(_, v) => {
                let mut tmp: Vec<RegLan> = Vec::new();
                for ins in v {
                    let r = build_ins_wrapped(ins, &tmp);
                    tmp.push(r);
                }
                allocs += v.len();
            }
            _ => {}
        }
        if !check_pairs(&slots, &mut o, &when) {
            return o;
        }
    }
    for idx in 0..slots.len() {
        if let Some(ins) = slots[idx].origin.clone() {
            let terms: Vec<RegLan> = slots.iter().map(|s| s.term).collect();
            let again = build_ins_wrapped(&ins, &terms);
            o.evals += 1;
            if ptr(again) != ptr(slots[idx].term) {
                o.fail("C07/rebuild-gives-different-term", format!("at the end: re-issuing r{} through the wrappers gives a different term", idx));
                return o;
            }
        }
    }
    o.nontrivial = rebuild_gap_ok && nonmonotone;
    if rebuild_gap_ok {
        o.tag("rebuild-after-history");
    }
    if nonmonotone {
        o.tag("non-monotone-operand-order");
    }
    o
}


// ---------------------------------------------------------------------------------------------
// scale cases (enumerated): terms with very many derivative classes
// ---------------------------------------------------------------------------------------------

fn wide(m: &mut ReManager, groups: usize, per_group: usize) -> RegLan {
    // intersection of `groups` stars of intersections of `per_group` distinct characters: the
    // language is {""} and every even character below 2*groups*per_group has its own class
    let mut gs = Vec::with_capacity(groups);
    for g in 0..groups {
        let chars: Vec<RegLan> = (0..per_group).map(|k| m.char((2 * (g * per_group + k)) as u32)).collect();
        let i = m.inter_list(chars);
        gs.push(m.star(i));
    }
    m.inter_list(gs)
}

/// One manager, one term with groups*per_group derivative classes (above 2^16 in the large case):
/// hash-consing and the derivative cache must behave at that scale exactly as at small scale.
pub fn enumerate(thorough: bool, part: usize, _parts: usize, sink: &mut crate::runner::EnumSink) {
    if part != 0 {
        return;
    }
    let _ = thorough;
    for (groups, per_group) in [(3usize, 5usize), (40, 7), (257, 256)] {
        let mut o = Outcome::default();
        let n = groups * per_group;
        let res = catch(|| {
            let mut fails: Vec<(String, String)> = Vec::new();
            let mut m = ReManager::new();
            let x = wide(&mut m, groups, per_group);
            // (how many derivative classes the term has is not specified: a manager that simplifies the
            // inner intersections away has fewer, and the case then exercises less; it is never a failure)
            if x.num_deriv_classes() != n {
                fails.push(("__tag".into(), "scale-term-simplified".into()));
            }
            let notx = m.complement(x);
            let ids_not: Vec<_> = notx.class_ids().collect();
            if ptr(m.complement(notx)) != ptr(x) {
                fails.push(("C07/complement-not-involution".into(), "complement(complement(x)) is not x for the wide term".into()));
            }
            let empty = m.empty();
            let full = m.full();
            let mut evals = 0u64;
            // L(x) = {""}: every derivative of x is the empty language, every derivative of not(x) is everything;
            // the two families are requested alternately in blocks so that the cache holds both
            let ids: Vec<_> = x.class_ids().collect();
            for (k, cid) in ids.iter().enumerate() {
                let d = m.class_derivative(x, *cid).unwrap();
                evals += 1;
                if ptr(d) != ptr(empty) && !m.is_empty_re(d) {
                    fails.push(("C07/language-depends-on-history".into(), format!("wide term ({} classes): derivative for class {} is {} but must denote the empty language", n, cid, d)));
                    break;
                }
                if k % 1000 == 999 || k + 1 == ids.len() {
                    // a few derivatives of the complement in between
                    for cid2 in [ids_not[ids_not.len() - 1], ids_not[k % ids_not.len()], ids_not[0]] {
                        let d2 = m.class_derivative(notx, cid2).unwrap();
                        evals += 1;
                        let c2 = m.complement(d2);
                        if ptr(d2) != ptr(full) && !m.is_empty_re(c2) {
                            fails.push(("C07/language-depends-on-history".into(), format!("wide term ({} classes): derivative of its complement for class {} is {} but must denote every string (the cache held {} derivatives of the term itself)", n, cid2, d2, k + 1)));
                            return fails;
                        }
                    }
                }
            }
            // all derivatives of the complement, now that every derivative of x is cached
            let ids2: Vec<_> = notx.class_ids().collect();
            for cid in ids2 {
                let d2 = m.class_derivative(notx, cid).unwrap();
                evals += 1;
                if ptr(d2) != ptr(full) {
                    let c2 = m.complement(d2);
                    if !m.is_empty_re(c2) {
                        fails.push(("C07/language-depends-on-history".into(), format!("wide term ({} classes): derivative of its complement for class {} is {} but must denote every string", n, cid, d2)));
                        break;
                    }
                }
            }
            // the same construction again gives the very same term
            let again = wide(&mut m, groups, per_group);
            if ptr(again) != ptr(x) {
                fails.push(("C07/rebuild-gives-different-term".into(), format!("re-issuing the construction of the wide term ({} classes) gives a different term", n)));
            }
            // membership
            let e = SmtStringOf(&[]);
            if !m.str_in_re(&e, x) || m.str_in_re(&SmtStringOf(&[1]), x) || m.str_in_re(&SmtStringOf(&[0]), x) || !m.str_in_re(&SmtStringOf(&[1]), notx) {
                fails.push(("C07/language-depends-on-history".into(), format!("wide term ({} classes): membership of the empty string / one-character strings is wrong", n)));
            }
            fails.push(("__evals".into(), evals.to_string()));
            fails
        });
        match res {
            Ok(fails) => {
                for (c, msg) in fails {
                    if c == "__evals" {
                        o.evals += msg.parse::<u64>().unwrap_or(0);
                    } else if c == "__tag" {
                        o.tag("scale-term-simplified");
                    } else {
                        o.fail(&c, msg);
                    }
                }
            }
            Err(msg) => o.fail("C07/panics", format!("wide term with {} classes: {}", n, msg)),
        }
        sink.case(&o, true, || format!("scale case: intersection of {} stars of intersections of {} characters ({} derivative classes)", groups, per_group, n));
    }
    // many terms in one manager: 30000 independent two-letter words w_i = [a_i, b_i]; after all of them exist
    // (ids far beyond 2^16) and with an ever warmer derivative cache, str(w_i) must accept w_i and reject w_(i+1)
    {
        let mut o = Outcome::default();
        let res = catch(|| {
            let mut fails: Vec<(String, String)> = Vec::new();
            let mut m = ReManager::new();
            let n = 30000u32;
            let word = |i: u32| -> Vec<u32> { vec![0x100 + (i % 40000), 0x10000 + (i * 7 % 50000)] };
            let terms: Vec<RegLan> = (0..n).map(|i| m.str(&SmtStringOf(&word(i)))).collect();
            let mut evals = 0u64;
            for i in 0..n {
                let t = terms[i as usize];
                let own = m.str_in_re(&SmtStringOf(&word(i)), t);
                let other = m.str_in_re(&SmtStringOf(&word((i + 1) % n)), t);
                let half = m.str_in_re(&SmtStringOf(&word(i)[..1]), t);
                evals += 3;
                if !own || other || half {
                    fails.push(("C07/language-depends-on-history".into(), format!("manager with {} word terms: term #{} = {} accepts its own word: {}, the next word: {}, its first letter alone: {}", n, i, t, own, other, half)));
                    break;
                }
                // re-issuing the construction gives the same term
                if i % 997 == 0 && ptr(m.str(&SmtStringOf(&word(i)))) != ptr(t) {
                    fails.push(("C07/rebuild-gives-different-term".into(), format!("manager with {} word terms: str(w_{}) re-issued gives a different term", n, i)));
                    break;
                }
            }
            // one old term combined with every later term: r = [a] was once subsumed (union(r, [a-c]) = [a-c]);
            // whatever the manager remembers about that, union(r, t_i) must still contain "a" and w_i
            if fails.is_empty() {
                let r = m.char(0x61);
                let wide = m.range(0x61, 0x63);
                let u0 = m.union(r, wide);
                if !m.str_in_re(&SmtStringOf(&[0x61]), u0) {
                    fails.push(("C07/language-depends-on-history".into(), "union(a, [a-c]) does not contain a".into()));
                }
                for i in (0..n).step_by(3) {
                    let u = m.union(r, terms[i as usize]);
                    let i2 = m.inter(u, r);
                    evals += 3;
                    if !m.str_in_re(&SmtStringOf(&[0x61]), u) || !m.str_in_re(&SmtStringOf(&word(i)), u) || !m.str_in_re(&SmtStringOf(&[0x61]), i2) {
                        fails.push(("C07/language-depends-on-history".into(), format!("manager with {} word terms: union(a, term #{}) = {} lost a member (the same construction on a fresh manager keeps it)", n, i, u)));
                        break;
                    }
                }
                // and with fresh ranges (terms that can subsume or be subsumed)
                for i in 0..6000u32 {
                    let s = m.range(0x1000 + 3 * i, 0x1000 + 3 * i + 1);
                    let u = m.union(r, s);
                    evals += 2;
                    if !m.str_in_re(&SmtStringOf(&[0x61]), u) || !m.str_in_re(&SmtStringOf(&[0x1000 + 3 * i]), u) {
                        fails.push(("C07/language-depends-on-history".into(), format!("manager with many terms: union(a, fresh range #{}) = {} lost a member", i, u)));
                        break;
                    }
                }
            }
            fails.push(("__evals".into(), evals.to_string()));
            fails
        });
        match res {
            Ok(fails) => {
                for (c, msg) in fails {
                    if c == "__evals" {
                        o.evals += msg.parse::<u64>().unwrap_or(0);
                    } else if c == "__tag" {
                        o.tag("scale-term-simplified");
                    } else {
                        o.fail(&c, msg);
                    }
                }
            }
            Err(msg) => o.fail("C07/panics", format!("manager with many word terms: {}", msg)),
        }
        sink.case(&o, true, || "scale case: one manager holding 30000 two-letter word terms (ids beyond 2^16), membership of every term re-checked on a warm cache".to_string());
    }
    // a long history of explorations (emptiness tests, enumerations, compilations of unrelated terms) on one
    // manager: what the manager answers about an old term must not depend on how many explorations
    // happened since (visit stamps, epochs and generation counters that wrap)
    {
        let mut o = Outcome::default();
        let res = catch(|| {
            let mut fails: Vec<(String, String)> = Vec::new();
            let mut m = ReManager::new();
            let abc = m.str(&SmtStringOf(&[0x61, 0x62, 0x63]));
            let full = m.full();
            let t1 = m.concat(abc, full); // abc Sigma*
            let ab = m.str(&SmtStringOf(&[0x61, 0x62]));
            let t2 = m.star(ab); // (ab)*
            let observe = |m: &mut ReManager| -> (bool, usize, usize, bool, bool, usize, usize) {
                (m.is_empty_re(t1), m.iter_derivatives(t1).count(), m.compile(t1).num_states(), m.start_char(t1, 0x61), m.is_empty_re(abc), m.iter_derivatives(t2).count(), m.compile(t2).num_states())
            };
            let first = observe(&mut m);
            // (how many derivative terms / states the two expressions have is the implementation's business:
            // only the semantic answers are fixed here, the counts just have to stay what they were)
            if (first.0, first.3, first.4) != (false, true, false) || first.1 < 5 || first.2 < 5 || first.5 < 3 || first.6 < 3 {
                fails.push(("C07/language-depends-on-history".into(), format!("fresh manager: observations on abc.Sigma* and (ab)* are {:?}", first)));
                return fails;
            }
            let noise: Vec<RegLan> = (0..7u32).map(|i| m.char(0x70 + i)).collect();
            let mut evals = 0u64;
            // A stamp left on the old term by its last exploration collides with the current one only when
            // exactly a wrap-around's worth of explorations lies between two explorations of that term:
            // every gap around 2^8, 2^12 and 2^16 is tried (each noise call is one exploration; the window
            // also covers implementations that spend two per call or skip the value 0)
            let mut gaps: Vec<u32> = Vec::new();
            for c in [256u32, 4096, 32_768, 65_536] {
                for d in 0..=24u32 {
                    gaps.push(c - 12 + d);
                }
            }
            'outer: for (gi, &g) in gaps.iter().enumerate() {
                for k in 0..g {
                    let x = noise[(k % 7) as usize];
                    match gi % 3 {
                        0 => {
                            let _ = m.is_empty_re(x);
                        }
                        1 => {
                            let _ = m.iter_derivatives(x).count();
                        }
                        _ => {
                            let _ = m.try_compile(x, 10);
                        }
                    }
                }
                evals += 7;
                let now = observe(&mut m);
                if now != first {
                    fails.push(("C07/language-depends-on-history".into(), format!("after {} explorations of unrelated terms since the last look at them, the observations on abc.Sigma* and (ab)* (is_empty_re, #derivatives, #states, start_char a, is_empty_re abc, #derivatives, #states) changed from {:?} to {:?}", g, first, now)));
                    break 'outer;
                }
            }
            fails.push(("__evals".into(), evals.to_string()));
            fails
        });
        match res {
            Ok(fails) => {
                for (c, msg) in fails {
                    if c == "__evals" {
                        o.evals += msg.parse::<u64>().unwrap_or(0);
                    } else {
                        o.fail(&c, msg);
                    }
                }
            }
            Err(msg) => o.fail("C07/panics", format!("long exploration history: {}", msg)),
        }
        sink.case(&o, true, || "scale case: 100 runs of 244..65548 explorations of unrelated terms on one manager, two old terms re-observed after each".to_string());
    }
    sink.stats.exhaustive_spaces.push("1 long-history case: abc.Sigma* and (ab)* re-observed on one manager after every number of unrelated explorations (emptiness tests / enumerations / bounded compilations) within 12 of 2^8, 2^12, 2^15 and 2^16".to_string());
    sink.stats.exhaustive_spaces.push("4 scale cases: one manager holding a term with 15 / 280 / 65792 derivative classes (every class derivative of the term and of its complement); one manager holding 30000 word terms (membership of each re-checked)".to_string());
    sink.stats.samples.push("[enum] scale case: inter_list of 257 x star(inter_list of 256 characters) -- 65792 derivative classes".to_string());
}

#[allow(non_snake_case)]
fn SmtStringOf(s: &[u32]) -> aws_smt_strings::smt_strings::SmtString {
    aws_smt_strings::smt_strings::SmtString::from(s)
}
