//! C01 — regex membership equals the SMT-LIB denotation of how the term was built.

use crate::atoms::show_str;
use crate::bisim::{bisim_term, BisimResult};
use crate::prog::{render_ins, smt, Prog, ProgCfg};
use crate::runner::{catch, Cx, Outcome};
use crate::rx::{self, sample_strings, RxCase};
use crate::tape::{fnv, Tape};
use aws_smt_strings::smt_regular_expressions as w;

pub fn cfg() -> ProgCfg {
    ProgCfg { big_p: 30, ..ProgCfg::default() }
}

/// failure class of a wrong slot: the constructor that produced the first wrong slot
fn class_for(prog: &Prog, slot: usize, dfas: Option<&Vec<crate::rdfa::Dfa>>, kind: &str) -> String {
    let ins = &prog.ins[slot];
    if let (Some((0, _)), Some(d)) = (ins.loop_bounds(), dfas) {
        let body = ins.operands()[0];
        if d[body].is_empty_lang() {
            return "C01/loop-of-empty-body-with-zero-lower-bound".into();
        }
    }
    format!("C01/{}/{}", kind, ins.name())
}

pub fn run(tape: &[u8], cx: &Cx) -> Outcome {
    // the first two fifths of the tape drive the string sampling, the rest the program
    let (ta, tb) = tape.split_at(tape.len() * 2 / 5);
    let mut t = Tape::new(ta);
    let mut tp = Tape::new(tb);
    // a fifth of the programs are "pattern pairs": a concatenation pattern s with ranges and Sigma*,
    // a term r derived from it (often included, sometimes a near miss) and their union plus wrappers —
    // the shapes on which the constructors' subsumption-based pruning acts
    let prog = if tp.bool_p(50) { crate::p_c16::gen_pair(&mut tp).0 } else { Prog::decode(&mut tp, &cfg().scaled(cx.thorough)) };
    let mut o = Outcome::default();
    o.digest = fnv(&prog.digest_bytes());
    let RxCase { prog, mut mgr, terms, dfas } = match rx::setup(prog.clone()) {
        Ok(c) => c,
        Err(reason) => {
            if let Some(msg) = reason.strip_prefix("PANIC:") {
                o.render = prog.render();
                o.fail("C01/constructor-panics", format!("constructing the program panicked: {}", msg));
                return o;
            }
            return Outcome::discarded(&reason);
        }
    };
    let last = prog.ins.len() - 1;
    let mut strings = sample_strings(&mut t, &prog.atoms, dfas.as_ref().map(|d| &d[last]), 6, 8);
    // large loop bounds: pumped strings u^k with k just below / at / just above the bounds in the program
    if dfas.is_none() {
        let mut bounds: Vec<u32> = prog.ins.iter().filter(|i| i.is_loop()).map(|i| i.max_bound()).filter(|&b| b >= 2).collect();
        bounds.sort_unstable();
        bounds.dedup();
        // nested loops multiply, concatenated loops add: products and sums of two bounds are boundaries too
        let mut cands: Vec<u32> = bounds.iter().copied().filter(|&b| b >= 5).collect();
        for (i, &a) in bounds.iter().enumerate() {
            for &b in &bounds[i..] {
                for v in [a.saturating_mul(b), a.saturating_add(b)] {
                    if v >= 5 && v <= 110 {
                        cands.push(v);
                    }
                }
            }
        }
        cands.sort_unstable();
        cands.dedup();
        let u: Vec<u32> = (0..1 + t.choose(2)).map(|_| prog.atoms.pick_landmark(&mut t)).collect();
        // up to two boundaries, chosen by the tape; strings up to 110 characters (the DP is cubic)
        let mut chosen: Vec<u32> = Vec::new();
        for _ in 0..2.min(cands.len()) {
            let b = cands[t.choose(cands.len())];
            if !chosen.contains(&b) {
                chosen.push(b);
            }
        }
        for &b in &chosen {
            for k in [b.saturating_sub(1), b, b + 1] {
                let reps = (k as usize) / u.len().max(1);
                if reps * u.len() <= 110 {
                    let mut w = Vec::new();
                    for _ in 0..reps {
                        w.extend(&u);
                    }
                    if w.len() > 40 {
                        o.tag("pumped-string>40");
                    }
                    strings.push(w);
                }
            }
        }
    }
    if cx.render {
        o.render = format!("{} ; strings {}", prog.render(), strings.iter().map(|s| show_str(s)).collect::<Vec<_>>().join(" "));
    }

    // (a)+(b): exact comparison of every slot with its reference DFA, nullable flag
    let mut first_bad: Option<usize> = None;
    if let Some(d) = &dfas {
        o.tag("exact");
        for slot in 0..prog.ins.len() {
            o.evals += 1;
            let dfa = &d[slot];
            if terms[slot].nullable != dfa.is_final(dfa.start) {
                o.fail(
                    &class_for(&prog, slot, dfas.as_ref(), "nullable"),
                    format!("r{} = {}: nullable = {} but the empty string is {}in the language", slot, render_ins(&prog.ins[slot]), terms[slot].nullable, if dfa.is_final(dfa.start) { "" } else { "not " }),
                );
                first_bad = Some(slot);
                break;
            }
            match bisim_term(&mut mgr, &prog.atoms, dfa, dfa.start, terms[slot], 800) {
                BisimResult::Equal(pairs, calls) => {
                    o.evals += calls as u64;
                    if pairs >= 8 {
                        o.tag("bisim>=8-pairs");
                    }
                }
                BisimResult::Differ { word, crate_says, reference_says } => {
                    o.fail(
                        &class_for(&prog, slot, dfas.as_ref(), "membership"),
                        format!("r{} = {} (term {}): str_in_re({}) = {} but the SMT-LIB language {} it", slot, render_ins(&prog.ins[slot]), terms[slot], show_str(&word), crate_says, if reference_says { "contains" } else { "does not contain" }),
                    );
                    first_bad = Some(slot);
                    break;
                }
                BisimResult::Capped => {
                    o.tag("bisim-capped");
                }
            }
        }
    } else if prog.max_loop_bound() > rx::EXACT_BOUND {
        o.tag("large-loop-bounds");
    } else {
        o.tag("reference-dfa-too-big");
    }

    // (c) sampled strings against the DP matcher, every slot
    let mut member = false;
    let mut nonmember = false;
    if first_bad.is_none() {
        'outer: for s in &strings {
            let dp = prog.dp(s);
            let cs = smt(s);
            for slot in 0..prog.ins.len() {
                o.evals += 1;
                let exp = dp[slot].get(0, s.len());
                if slot == last {
                    if exp {
                        member = true;
                    } else {
                        nonmember = true;
                    }
                }
                let got = mgr.str_in_re(&cs, terms[slot]);
                if got != exp {
                    o.fail(
                        &class_for(&prog, slot, dfas.as_ref(), "membership"),
                        format!("r{} = {} (term {}): str_in_re({}) = {}, the DP matcher says {}", slot, render_ins(&prog.ins[slot]), terms[slot], show_str(s), got, exp),
                    );
                    break 'outer;
                }
                if s.is_empty() && terms[slot].nullable != exp {
                    o.fail(&class_for(&prog, slot, dfas.as_ref(), "nullable"), format!("r{} = {}: nullable = {}, expected {}", slot, render_ins(&prog.ins[slot]), terms[slot].nullable, exp));
                    break 'outer;
                }
            }
        }
    }

    // (d) the SMT-LIB-named wrappers on the thread-local manager, in a fresh thread
    if first_bad.is_none() && o.fails.is_empty() {
        let p2 = prog.clone();
        let strs = strings.clone();
        let res = crate::runner::spawn_user_thread(move || {
            catch(move || {
                let terms = p2.build_wrapped();
                let mut out = Vec::new();
                for s in &strs {
                    let cs = smt(s);
                    let row: Vec<bool> = terms.iter().map(|&e| w::str_in_re(&cs, e)).collect();
                    out.push(row);
                }
                let nullable: Vec<bool> = terms.iter().map(|e| e.nullable).collect();
                (out, nullable)
            })
        })
        .join()
        .unwrap_or_else(|_| Err("wrapper thread died".into()));
        match res {
            Ok((rows, nullable)) => {
                'w: for (s, row) in strings.iter().zip(rows.iter()) {
                    let dp = prog.dp(s);
                    for slot in 0..prog.ins.len() {
                        o.evals += 1;
                        let exp = dp[slot].get(0, s.len());
                        if row[slot] != exp {
                            o.fail(&class_for(&prog, slot, dfas.as_ref(), "wrapper-membership"), format!("wrappers: r{} = {}: str_in_re({}) = {}, expected {}", slot, render_ins(&prog.ins[slot]), show_str(s), row[slot], exp));
                            break 'w;
                        }
                        if s.is_empty() && nullable[slot] != exp {
                            o.fail(&class_for(&prog, slot, dfas.as_ref(), "wrapper-nullable"), format!("wrappers: r{} = {}: nullable = {}", slot, render_ins(&prog.ins[slot]), nullable[slot]));
                            break 'w;
                        }
                    }
                }
            }
            Err(msg) => {
                if !rx::is_overflow(&msg, prog.max_loop_bound()) {
                    o.fail("C01/wrapper-panics", format!("wrappers panicked: {}", msg));
                }
            }
        }
    }

    o.nontrivial = prog.ins.len() >= 3 && prog.has(|i| i.is_loop() || i.is_boolean()) && member && nonmember;
    if prog.has(|i| matches!(i, crate::prog::Ins::Complement(_))) {
        o.tag("has-complement");
    }
    if prog.has(|i| i.is_loop()) {
        o.tag("has-loop");
    }
    if prog.has(|i| matches!(i, crate::prog::Ins::Inter(..) | crate::prog::Ins::InterList(..) | crate::prog::Ins::Diff(..) | crate::prog::Ins::DiffList(..))) {
        o.tag("has-inter/diff");
    }
    if member && nonmember {
        o.tag("member-and-non-member-sampled");
    }
    if prog.ins.len() >= 6 {
        o.tag(">=6-instructions");
    }
    if matches!(prog.ins[0], crate::prog::Ins::Full) && prog.has(|i| matches!(i, crate::prog::Ins::ConcatList(_))) {
        o.tag("pattern-pair-program");
    }
    o
}
