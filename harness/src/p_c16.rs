//! C16 — included_in never claims an inclusion that does not hold; unions lose nothing.

use crate::atoms::{show_str, Atoms};
use crate::bisim::{bisim_term, ptr, BisimResult};
use crate::prog::{render_ins, Ins, Prog, ProgCfg};
use crate::runner::{Cx, Outcome};
use crate::rx::{self, RxCase};
use crate::tape::{fnv, Tape};

/// one element of a "simple pattern": appended to the program, returns its slot
fn push(ins: &mut Vec<Ins>, i: Ins) -> usize {
    ins.push(i);
    ins.len() - 1
}

fn gen_range_elem(t: &mut Tape, atoms: &Atoms, ins: &mut Vec<Ins>) -> (usize, (usize, usize)) {
    // a range spanning atoms i..=j
    let n = atoms.len();
    let i = t.choose(n);
    let j = (i + t.weighted(&[4, 3, 2, 1])).min(n - 1);
    let slot = push(ins, Ins::Range(atoms.atoms[i].0, atoms.atoms[j].1));
    (slot, (i, j))
}

/// pattern program: s = concat of elements, r derived from s (often included, sometimes a near miss)
/// wide unions / intersections (more than 8 operands) against a product of ranges or a word:
/// "every operand is included" / "included in every operand" must really look at every operand
fn gen_wide(t: &mut Tape) -> (Prog, usize, usize) {
    // ten landmarks: a..h adjacent, plus p and z
    let atoms = Atoms::from_landmarks(vec![0x61, 0x62, 0x63, 0x64, 0x65, 0x66, 0x67, 0x68, 0x70, 0x7A]);
    let mut ins: Vec<Ins> = Vec::new();
    let k = 7 + t.choose(9); // 7..15 operands
    let bad = t.weighted(&[3, 4, 2]); // how many operands break the inclusion
    if t.flag() {
        // r = union of k distinct two-letter words, s = R1.R2 with R1 = [a..x], R2 = [y..z']
        let hi1 = 0x63 + t.choose(6) as u32; // c..h
        let r1 = push(&mut ins, Ins::Range(0x61, hi1));
        let lo2 = t.pick(&[0x61u32, 0x64, 0x70]);
        let hi2 = t.pick(&[0x70u32, 0x7A, 0x2FFFF]).max(lo2);
        let r2 = push(&mut ins, Ins::Range(lo2, hi2));
        let s = push(&mut ins, Ins::Concat(r1, r2));
        let firsts: Vec<u32> = (0x61..=hi1).collect();
        let seconds: Vec<u32> = atoms.landmarks.iter().copied().filter(|&l| lo2 <= l && l <= hi2).collect();
        // k distinct included words (as many as exist), in a tape-chosen order
        let mut pool: Vec<Vec<u32>> = Vec::new();
        for &a in &firsts {
            for &b in &seconds {
                pool.push(vec![a, b]);
            }
        }
        for i in (1..pool.len()).rev() {
            let j = t.choose(i + 1);
            pool.swap(i, j);
        }
        pool.truncate(k);
        let mut words = pool;
        // the words that break the inclusion: a letter outside the range, at a tape-chosen position in the list
        let outside1: Vec<u32> = atoms.landmarks.iter().copied().filter(|&l| l > hi1).collect();
        for _ in 0..bad {
            let w = if t.flag() && !outside1.is_empty() { vec![outside1[t.choose(outside1.len())], seconds[t.choose(seconds.len())]] } else { vec![firsts[t.choose(firsts.len())], t.pick(&[0x62u32, 0x63])] };
            let pos = if t.flag() { words.len() } else { t.choose(words.len() + 1) };
            words.insert(pos, w);
        }
        let mut ops = Vec::new();
        for w in words {
            ops.push(push(&mut ins, Ins::Str(w)));
        }
        let r = push(&mut ins, Ins::UnionList(ops));
        push(&mut ins, Ins::Union(r, s));
        let c1 = push(&mut ins, Ins::Complement(r));
        let c2 = push(&mut ins, Ins::Complement(s));
        push(&mut ins, Ins::Union(c1, c2));
        (Prog { atoms, ins }, r, s)
    } else {
        // r = a word, s = intersection of k languages "contains the letter c_i"
        let full = push(&mut ins, Ins::Full);
        let wlen = 3 + t.choose(6);
        let w: Vec<u32> = (0..wlen).map(|_| atoms.pick_landmark(t)).collect();
        let r = push(&mut ins, Ins::Str(w.clone()));
        let mut letters: Vec<u32> = (0..k).map(|i| w[i % w.len()]).collect();
        for _ in 0..bad {
            let which = t.choose(k);
            letters[which] = atoms.pick_landmark(t);
        }
        let mut ops = Vec::new();
        for (i, c) in letters.into_iter().enumerate() {
            // distinct terms even for equal letters: Sigma* c Sigma* / Sigma* c Sigma* Sigma^[0,i]
            let ch = push(&mut ins, Ins::Range(c, c));
            let tail = if i % 3 == 0 { full } else { push(&mut ins, Ins::SmtLoop(full, 0, 1 + i as u32 % 3)) };
            ops.push(push(&mut ins, Ins::ConcatList(vec![full, ch, tail])));
        }
        let s = push(&mut ins, Ins::InterList(ops));
        push(&mut ins, Ins::Union(r, s));
        (Prog { atoms, ins }, r, s)
    }
}

pub fn gen_pair(t: &mut Tape) -> (Prog, usize, usize) {
    if t.bool_p(40) {
        return gen_wide(t);
    }
    let atoms = Atoms::decode(t, 5);
    let n = atoms.len();
    let mut ins: Vec<Ins> = Vec::new();
    let full = push(&mut ins, Ins::Full);
    let ns = 1 + t.choose(7);
    let mut s_elems: Vec<usize> = Vec::new();
    let mut r_elems: Vec<usize> = Vec::new();
    let mut rigid: Vec<(usize, (usize, usize))> = Vec::new();
    for _ in 0..ns {
        match t.weighted(&[6, 4, 1, 2, 2]) {
            4 => {
                // a character class written as a union of 2-4 ranges (overlapping, adjacent, nested or with
                // gaps) as one factor of s; in r a range somewhere in its hull — inside one operand, across
                // two overlapping ones, or reaching into a gap (a union of ranges is not its hull)
                let k = 2 + t.choose(3);
                let mut ops = Vec::new();
                let (mut lo, mut hi) = (n, 0usize);
                for _ in 0..k {
                    let (slot, (i, j)) = gen_range_elem(t, &atoms, &mut ins);
                    ops.push(slot);
                    lo = lo.min(i);
                    hi = hi.max(j);
                }
                s_elems.push(push(&mut ins, Ins::UnionList(ops.clone())));
                let r_slot = match t.weighted(&[3, 4, 1]) {
                    0 => ops[t.choose(ops.len())],
                    1 => {
                        let a = lo + t.choose(hi - lo + 1);
                        let b = a + t.choose(hi - a + 1).min(t.choose(3));
                        push(&mut ins, Ins::Range(atoms.atoms[a].0, atoms.atoms[b].1))
                    }
                    _ => push(&mut ins, Ins::Range(atoms.atoms[lo].0, atoms.atoms[hi].1)),
                };
                r_elems.push(r_slot);
            }
            0 => {
                // rigid element: a range in s (a third of the time the same range as an earlier rigid
                // element, so that one occurrence in r can be claimed twice); in r a sub-range / the
                // same / (near miss) a wider or shifted one
                let (slot, (i, j)) = if !rigid.is_empty() && t.bool_p(85) {
                    rigid[t.choose(rigid.len())]
                } else {
                    gen_range_elem(t, &atoms, &mut ins)
                };
                rigid.push((slot, (i, j)));
                s_elems.push(slot);
                let r_slot = match t.weighted(&[5, 4, 2, 1]) {
                    0 => slot,
                    1 => {
                        let a = i + t.choose(j - i + 1);
                        let b = a + t.choose(j - a + 1);
                        push(&mut ins, Ins::Range(atoms.atoms[a].0, atoms.atoms[b].1))
                    }
                    2 => {
                        // near miss: extend by one atom on one side (may or may not exist)
                        let a = if t.flag() { i.saturating_sub(1) } else { i };
                        let b = (j + 1).min(n - 1);
                        push(&mut ins, Ins::Range(atoms.atoms[a].0, atoms.atoms[b].1))
                    }
                    _ => {
                        // a loop over the range instead of the range itself
                        let lo = t.choose(3) as u32;
                        push(&mut ins, Ins::SmtLoop(slot, lo, lo + t.choose(2) as u32))
                    }
                };
                // near miss: sometimes drop or duplicate the element in r
                match t.weighted(&[10, 2, 1]) {
                    0 => r_elems.push(r_slot),
                    1 => {}
                    _ => {
                        r_elems.push(r_slot);
                        r_elems.push(r_slot);
                    }
                }
            }
            1 => {
                // flexible element: Sigma* in s; anything in r
                s_elems.push(full);
                let k = t.choose(4);
                for _ in 0..k {
                    let e = match t.weighted(&[4, 2, 2, 1, 1]) {
                        0 => gen_range_elem(t, &atoms, &mut ins).0,
                        1 => full,
                        2 => {
                            let (x, _) = gen_range_elem(t, &atoms, &mut ins);
                            let lo = t.choose(3) as u32;
                            if t.flag() {
                                push(&mut ins, Ins::MkLoop(x, lo, None))
                            } else {
                                push(&mut ins, Ins::SmtLoop(x, lo, lo + t.choose(3) as u32))
                            }
                        }
                        3 => push(&mut ins, Ins::Str((0..t.choose(3)).map(|_| atoms.pick_landmark(t)).collect())),
                        _ => {
                            let (x, _) = gen_range_elem(t, &atoms, &mut ins);
                            push(&mut ins, Ins::Complement(x))
                        }
                    };
                    r_elems.push(e);
                }
            }
            2 => {
                // a loop element in both
                let (x, _) = gen_range_elem(t, &atoms, &mut ins);
                let lo = t.choose(3) as u32;
                let l = push(&mut ins, Ins::MkLoop(x, lo, if t.flag() { None } else { Some(lo + 1) }));
                s_elems.push(l);
                r_elems.push(if t.flag() { l } else { x });
            }
            _ => {
                // all_chars in s, a range in r
                let a = push(&mut ins, Ins::AllChars);
                s_elems.push(a);
                r_elems.push(gen_range_elem(t, &atoms, &mut ins).0);
            }
        }
    }
    let s = push(&mut ins, Ins::ConcatList(s_elems));
    let r = push(&mut ins, Ins::ConcatList(r_elems));
    // the union of the pair, in either operand order: if r is (wrongly) judged included in s it is dropped here
    if t.flag() {
        push(&mut ins, Ins::Union(r, s));
    } else {
        push(&mut ins, Ins::Union(s, r));
    }
    // sometimes two groups of differently spelled constant words (single-string languages that are equal
    // or different while their terms look alike / unlike)
    if t.bool_p(50) {
        Prog::decode_respell(t, &atoms, &mut ins);
        Prog::decode_respell(t, &atoms, &mut ins);
    }
    // wrappers that keep inclusions meaningful: complements (swap), unions, intersections
    let extra = t.choose(6);
    let cfg = ProgCfg::default();
    for _ in 0..extra {
        let n_ins = ins.len();
        let i = match t.weighted(&[3, 3, 2, 2, 4]) {
            0 => Ins::Complement(if t.flag() { r } else { s }),
            1 => Ins::Union(if t.flag() { r } else { s }, t.choose(n_ins)),
            2 => Ins::Inter(if t.flag() { r } else { s }, t.choose(n_ins)),
            3 => Ins::UnionList((0..2 + t.choose(3)).map(|_| t.choose(n_ins)).collect()),
            _ => Prog::decode_ins(t, &atoms, &cfg, false, n_ins),
        };
        ins.push(i);
    }
    (Prog { atoms, ins }, r, s)
}

pub fn run(tape: &[u8], cx: &Cx) -> Outcome {
    let mut t = Tape::new(tape);
    let (prog, r_slot, s_slot) = gen_pair(&mut t);
    let mut o = Outcome::default();
    o.digest = fnv(&prog.digest_bytes());
    let RxCase { prog, mut mgr, terms, dfas } = match rx::setup(prog.clone()) {
        Ok(c) => c,
        Err(reason) => {
            if let Some(msg) = reason.strip_prefix("PANIC:") {
                o.render = prog.render();
                o.fail("C16/constructor-panics", format!("constructing the program panicked: {}", msg));
                return o;
            }
            return Outcome::discarded(&reason);
        }
    };
    let dfas = match dfas {
        Some(d) => d,
        None => return Outcome::discarded("reference DFA too big"),
    };
    if cx.render {
        o.render = format!("{} ; r = r{}, s = r{}", prog.render(), r_slot, s_slot);
    }
    let n = prog.ins.len();
    let mut claims = 0;
    for i in 0..n {
        for j in 0..n {
            if i == j {
                continue;
            }
            o.evals += 1;
            if terms[i].included_in(terms[j]) {
                if ptr(terms[i]) != ptr(terms[j]) {
                    claims += 1;
                    if !dfas[i].is_empty_lang() && !dfas[j].is_full_lang() {
                        o.nontrivial = true;
                    }
                }
                match dfas[i].subset_of(&dfas[j]) {
                    Some(true) => {}
                    Some(false) => {
                        let w = dfas[i].diff(&dfas[j]).ok().and_then(|d| d.shortest_word());
                        let word: Vec<u32> = w.map(|w| w.iter().map(|&x| prog.atoms.atoms[x].0).collect()).unwrap_or_default();
                        o.fail(
                            "C16/included_in-claims-false-inclusion",
                            format!("({}).included_in({}) = true [r{} = {}, r{} = {}] but {} is in the first language and not in the second", terms[i], terms[j], i, render_ins(&prog.ins[i]), j, render_ins(&prog.ins[j]), show_str(&word)),
                        );
                        return o;
                    }
                    None => o.tag("claim-not-judged(product-too-big)"),
                }
            }
        }
    }
    // unions are pruned with the same test: the union term must denote the union of its operands
    for slot in 0..n {
        if matches!(prog.ins[slot], Ins::Union(..) | Ins::UnionList(..)) {
            o.evals += 1;
            let dfa = &dfas[slot];
            let res = bisim_term(&mut mgr, &prog.atoms, dfa, dfa.start, terms[slot], 800);
            if matches!(res, BisimResult::Capped) {
                o.tag("bisim-capped");
                continue;
            }
            if let BisimResult::Differ { word, crate_says, reference_says } = res {
                let class = if reference_says && !crate_says { "C16/union-loses-strings" } else { "C16/union-gains-strings" };
                o.fail(class, format!("r{} = {} (term {}): membership of {} is {} but the union of the operands says {}", slot, render_ins(&prog.ins[slot]), terms[slot], show_str(&word), crate_says, reference_says));
                return o;
            }
            o.tag("union-checked");
        }
    }
    if terms[r_slot].included_in(terms[s_slot]) && ptr(terms[r_slot]) != ptr(terms[s_slot]) {
        o.tag("pattern-pair-included");
    }
    if claims >= 3 {
        o.tag(">=3-claims");
    }
    if prog.has(|i| matches!(i, Ins::UnionList(v) | Ins::InterList(v) if v.len() >= 9)) {
        o.tag("wide-union/intersection");
    }
    if o.nontrivial {
        o.tag("non-trivial-claim");
    }
    o
}
