//! C02 — compile/try_compile yield a total DFA accepting exactly the regex language.

use crate::atoms::{show_char, show_str, MAX};
use crate::bisim::{deriv_closure, product_automaton, state_probe_chars, ProductResult};
use crate::prog::{render_ins, smt, Prog, ProgCfg};
use crate::runner::{catch, Cx, Outcome};
use crate::rx::{self, sample_strings, RxCase};
use crate::tape::{fnv, Tape};
use aws_smt_strings::automata::Automaton;

pub fn cfg() -> ProgCfg {
    ProgCfg { max_ins: 10, ..ProgCfg::default() }
}

/// structural well-formedness of every state: ranges sorted, disjoint, inside the alphabet; a default
/// successor whenever some character is uncovered; `next` defined on every break point
pub fn check_structure(a: &Automaton, what: &str, o: &mut Outcome) -> bool {
    for s in a.states() {
        o.evals += 1;
        let mut prev_end: Option<u32> = None;
        let mut covered: u64 = 0;
        for r in s.char_ranges() {
            let (lo, hi32) = crate::bisim::bounds_of(r);
            let hi = lo as u64 + r.size() as u64 - 1;
            let _ = hi32;
            if hi > MAX as u64 || !r.contains(lo) || !r.contains(hi as u32) || prev_end.map_or(false, |e| lo <= e) {
                o.fail("C02/state-ranges-malformed", format!("{}: state {} has ranges that are not sorted/disjoint/within the alphabet", what, s.id()));
                return false;
            }
            prev_end = Some(hi as u32);
            covered += r.size() as u64;
        }
        if covered < MAX as u64 + 1 && !s.has_default_successor() {
            o.fail("C02/no-successor", format!("{}: state {} leaves characters uncovered and has no default successor", what, s.id()));
            return false;
        }
        for c in state_probe_chars(s, &[]) {
            o.evals += 1;
            if let Err(msg) = catch(|| a.next(s, c).id()) {
                o.fail("C02/next-panics", format!("{}: next(state {}, {}) panicked: {}", what, s.id(), show_char(c), msg));
                return false;
            }
        }
    }
    true
}

pub fn run(tape: &[u8], cx: &Cx) -> Outcome {
    let (ta, tb) = tape.split_at(tape.len() / 3);
    let mut t = Tape::new(ta);
    let mut tp = Tape::new(tb);
    let prog = Prog::decode(&mut tp, &cfg().scaled(cx.thorough));
    let mut o = Outcome::default();
    o.digest = fnv(&prog.digest_bytes());
    let RxCase { prog, mut mgr, terms, dfas } = match rx::setup(prog.clone()) {
        Ok(c) => c,
        Err(reason) => {
            if let Some(msg) = reason.strip_prefix("PANIC:") {
                o.render = prog.render();
                o.fail("C02/constructor-panics", format!("constructing the program panicked: {}", msg));
                return o;
            }
            return Outcome::discarded(&reason);
        }
    };
    let dfas = match dfas {
        Some(d) => d,
        None => return Outcome::discarded("reference DFA too big"),
    };
    let last = prog.ins.len() - 1;
    // second compiled slot: the one with the most derivative classes, or a random one
    let richest = (0..prog.ins.len()).max_by_key(|&i| (terms[i].num_deriv_classes(), i)).unwrap();
    let other = if t.flag() { richest } else { t.choose(prog.ins.len()) };
    let strings = sample_strings(&mut t, &prog.atoms, Some(&dfas[last]), 5, 8);
    if cx.render {
        o.render = format!("{} ; compiled slots r{} r{} ; strings {}", prog.render(), last, other, strings.iter().map(|s| show_str(s)).collect::<Vec<_>>().join(" "));
    }
    let mut slots = vec![last];
    if other != last {
        slots.push(other);
    }
    for &slot in &slots {
        let e = terms[slot];
        let closure = match deriv_closure(&mut mgr, &prog.atoms, e, rx::CLOSURE_CAP) {
            Some(c) => c,
            None => return Outcome::discarded("derivative closure above the cap"),
        };
        let n = closure.len();
        let what = format!("compile(r{} = {})", slot, render_ins(&prog.ins[slot]));
        let a = match catch(|| mgr.compile(e)) {
            Ok(a) => a,
            Err(msg) => {
                o.fail("C02/compile-panics", format!("{} panicked: {}", what, msg));
                return o;
            }
        };
        if !check_structure(&a, &what, &mut o) {
            return o;
        }
        let dfa = &dfas[slot];
        match product_automaton(&prog.atoms, dfa, dfa.start, &a, a.initial_state()) {
            ProductResult::Equal(pairs) => {
                o.evals += pairs as u64;
            }
            ProductResult::Differ { word, automaton_says, reference_says } => {
                o.fail("C02/language-differs", format!("{} (term {}): automaton accepts({}) = {} but the language says {}", what, e, show_str(&word), automaton_says, reference_says));
                return o;
            }
            ProductResult::Stuck { word, msg } => {
                o.fail("C02/next-panics", format!("{}: stepping along {} panicked: {}", what, show_str(&word), msg));
                return o;
            }
        }
        // sampled strings (interior characters) through accepts / str_next
        if slot == last {
            for s in &strings {
                o.evals += 1;
                let exp = prog.member(slot, s);
                let cs = smt(s);
                match catch(|| (a.accepts(&cs), a.str_next(a.initial_state(), &cs).is_final())) {
                    Ok((acc, fin)) => {
                        if acc != exp || fin != exp {
                            o.fail("C02/language-differs", format!("{}: accepts({}) = {}, str_next(..).is_final = {}, expected {}", what, show_str(s), acc, fin, exp));
                            return o;
                        }
                    }
                    Err(msg) => {
                        o.fail("C02/next-panics", format!("{}: accepts({}) panicked: {}", what, show_str(s), msg));
                        return o;
                    }
                }
            }
        }
        // try_compile with a sufficient bound gives the same language
        match catch(|| mgr.try_compile(e, n + 3)) {
            Ok(Some(b)) => {
                if check_structure(&b, "try_compile", &mut o) {
                    match product_automaton(&prog.atoms, dfa, dfa.start, &b, b.initial_state()) {
                        ProductResult::Equal(_) => {}
                        ProductResult::Differ { word, .. } => {
                            o.fail("C02/language-differs", format!("try_compile(r{}, {}) disagrees with the language on {}", slot, n + 3, show_str(&word)));
                            return o;
                        }
                        ProductResult::Stuck { word, msg } => {
                            o.fail("C02/next-panics", format!("try_compile(r{}): stepping along {} panicked: {}", slot, show_str(&word), msg));
                            return o;
                        }
                    }
                }
            }
            Ok(None) => {
                // when try_compile gives up is C19's subject (C02 speaks about the automaton "when it returns Some")
                o.tag("try_compile-returned-none");
            }
            Err(msg) => {
                o.fail("C02/compile-panics", format!("try_compile(r{}) panicked: {}", slot, msg));
                return o;
            }
        }
        if slot == last {
            let nontrivial = a.num_states() >= 3 && !dfa.is_empty_lang() && !dfa.is_full_lang();
            o.nontrivial = nontrivial;
            if a.num_states() >= 6 {
                o.tag(">=6-states");
            }
            if dfa.is_empty_lang() {
                o.tag("empty-language");
            }
            if a.states().any(|s| !s.has_default_successor()) {
                o.tag("state-without-default");
            }
        }
    }
    o
}
