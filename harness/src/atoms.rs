//! R2: landmark alphabet. A handful of landmarks cut [0, MAX] into atoms; every
//! range of a generated case is a union of atoms, so the reference models work on
//! the atom alphabet while the crate is always exercised on concrete characters.

use crate::tape::Tape;

pub const MAX: u32 = 0x2FFFF;

/// pool of landmark candidates: rich in boundaries
pub const POOL: &[u32] = &[
    0x61, 0x62, 0x63, 0x64, 0x65, // a..e (adjacent points)
    0, 1, 0x30, 0x39, 0x41, 0x5A, 0x7A, 0x7F, 0x80, 0xFF, 0x100, 0xD7FF, 0xD800, 0xDFFF, 0xE000,
    0xFFFD, 0xFFFF, 0x10000, 0x10001, 0x1FFFF, 0x20000, 0x2FFFE, 0x2FFFF, 0x3E8, 0x1234, 0x2ABCD,
];

#[derive(Clone, Debug, PartialEq, Eq)]
pub struct Atoms {
    pub landmarks: Vec<u32>,
    /// atoms as closed intervals, sorted, covering [0, MAX]
    pub atoms: Vec<(u32, u32)>,
}

impl Atoms {
    pub fn from_landmarks(mut l: Vec<u32>) -> Atoms {
        l.sort_unstable();
        l.dedup();
        let mut atoms = Vec::new();
        let mut next = 0u32; // first char not yet covered
        for &x in &l {
            if x > next {
                atoms.push((next, x - 1));
            }
            atoms.push((x, x));
            next = x + 1;
        }
        if next <= MAX {
            atoms.push((next, MAX));
        }
        Atoms { landmarks: l, atoms }
    }

    /// decode 1..=max_l landmarks from the tape
    pub fn decode(t: &mut Tape, max_l: usize) -> Atoms {
        let n = 1 + t.choose(max_l);
        let mut l = Vec::with_capacity(n);
        for _ in 0..n {
            l.push(t.pick(POOL));
        }
        Atoms::from_landmarks(l)
    }

    pub fn len(&self) -> usize {
        self.atoms.len()
    }

    pub fn atom_of(&self, c: u32) -> usize {
        // linear scan (<= 17 atoms); deliberately not a binary search
        for (i, &(a, b)) in self.atoms.iter().enumerate() {
            if a <= c && c <= b {
                return i;
            }
        }
        panic!("char out of alphabet: {:#x}", c);
    }

    /// representatives of atom i: first, last, one interior character
    pub fn reps_of(&self, i: usize) -> Vec<u32> {
        let (a, b) = self.atoms[i];
        let mut v = vec![a];
        if b > a {
            v.push(b);
        }
        if b > a + 1 {
            v.push(a + (b - a) / 2);
        }
        v
    }

    pub fn all_reps(&self) -> Vec<u32> {
        let mut v = Vec::new();
        for i in 0..self.atoms.len() {
            v.extend(self.reps_of(i));
        }
        v
    }

    /// pick a range that is a union of consecutive atoms
    pub fn pick_range(&self, t: &mut Tape) -> (u32, u32) {
        let n = self.atoms.len();
        let i = t.choose(n);
        // mostly short spans
        let span = match t.weighted(&[6, 3, 2, 1]) {
            0 => 0,
            1 => 1,
            2 => 2,
            _ => t.choose(n),
        };
        let j = (i + span).min(n - 1);
        (self.atoms[i].0, self.atoms[j].1)
    }

    /// pick a concrete character: a representative of some atom
    pub fn pick_char(&self, t: &mut Tape) -> u32 {
        let i = t.choose(self.atoms.len());
        let r = self.reps_of(i);
        r[t.choose(r.len())]
    }

    /// pick a point atom (a landmark)
    pub fn pick_landmark(&self, t: &mut Tape) -> u32 {
        self.landmarks[t.choose(self.landmarks.len())]
    }

    /// set of atom indices covered by [a, b] (which must be a union of atoms)
    pub fn atoms_in(&self, a: u32, b: u32) -> Vec<usize> {
        let mut v = Vec::new();
        for (i, &(x, y)) in self.atoms.iter().enumerate() {
            if a <= x && y <= b {
                v.push(i);
            } else {
                // must not partially overlap
                debug_assert!(y < a || x > b, "range [{a:#x},{b:#x}] cuts atom [{x:#x},{y:#x}]");
            }
        }
        v
    }
}

pub fn show_char(c: u32) -> String {
    if (0x21..0x7F).contains(&c) && c != b'\\' as u32 && c != b'\'' as u32 {
        format!("'{}'", char::from_u32(c).unwrap())
    } else {
        format!("#{:x}", c)
    }
}

pub fn show_str(s: &[u32]) -> String {
    if !s.is_empty() && s.iter().all(|&c| (0x21..0x7F).contains(&c) && c != b'"' as u32 && c != b'\\' as u32) {
        format!("\"{}\"", s.iter().map(|&c| char::from_u32(c).unwrap()).collect::<String>())
    } else {
        let parts: Vec<String> = s.iter().map(|c| format!("{:x}", c)).collect();
        format!("<{}>", parts.join(" "))
    }
}
