//! C15 — LoopRange arithmetic equals arithmetic on the integer sets it denotes.
//! Oracle: sets of naturals as exact unions of intervals over u128.

use crate::runner::{catch, Cx, EnumSink, Outcome};
use crate::tape::{fnv, Tape};
use aws_smt_strings::loop_ranges::LoopRange;

/// a range as a set: [lo, hi] or [lo, inf)
#[derive(Clone, Copy, Debug, PartialEq, Eq, Hash)]
pub struct R {
    lo: u128,
    hi: Option<u128>,
}

const U32MAX: u128 = u32::MAX as u128;

impl R {
    fn mk(self) -> LoopRange {
        match self.hi {
            Some(h) => LoopRange::finite(self.lo as u32, h as u32),
            None => LoopRange::infinite(self.lo as u32),
        }
    }
    fn show(&self) -> String {
        match self.hi {
            Some(h) => format!("[{},{}]", self.lo, h),
            None => format!("[{},inf)", self.lo),
        }
    }
    fn contains(&self, x: u128) -> bool {
        self.lo <= x && self.hi.map_or(true, |h| x <= h)
    }
    fn subset_of(&self, o: &R) -> bool {
        // every element of self is in o
        o.lo <= self.lo
            && match (self.hi, o.hi) {
                (_, None) => true,
                (None, Some(_)) => false,
                (Some(a), Some(b)) => a <= b,
            }
    }
    fn is_zero(&self) -> bool {
        self.lo == 0 && self.hi == Some(0)
    }
    fn fits(&self) -> bool {
        self.lo <= U32MAX && self.hi.map_or(true, |h| h <= U32MAX)
    }
}

/// observe a crate range as a set: via start(), is_finite(), and contains() probes around the ends
fn observe(r: &LoopRange) -> Result<R, String> {
    let lo = r.start() as u128;
    if r.is_infinite() == r.is_finite() {
        return Err("is_finite() and is_infinite() agree".into());
    }
    if !r.contains(lo as u32) || (lo > 0 && r.contains(lo as u32 - 1)) {
        return Err(format!("start() = {} inconsistent with contains()", lo));
    }
    if r.is_infinite() {
        if !r.contains(u32::MAX) {
            return Err("infinite range does not contain u32::MAX".into());
        }
        return Ok(R { lo, hi: None });
    }
    // finite: find the end from the Display form is fragile; use the public algebra instead:
    // the end is the largest x with contains(x); locate it by galloping + binary search
    let mut a = lo; // contains(a)
    let mut step = 1u128;
    let mut b = loop {
        let c = a + step;
        if c > U32MAX {
            break U32MAX + 1;
        }
        if r.contains(c as u32) {
            a = c;
            step *= 2;
        } else {
            break c;
        }
    }; // !contains(b) or b = 2^32
    while b - a > 1 {
        let m = a + (b - a) / 2;
        if r.contains(m as u32) {
            a = m;
        } else {
            b = m;
        }
    }
    Ok(R { lo, hi: Some(a) })
}

fn same(got: &LoopRange, exp: &R) -> Result<(), String> {
    let g = observe(got)?;
    if g == *exp {
        // also the constructors must agree (PartialEq)
        if exp.fits() && *got != exp.mk() {
            return Err(format!("same set as {} but != the constructed range", exp.show()));
        }
        Ok(())
    } else {
        Err(format!("got {}, expected {}", g.show(), exp.show()))
    }
}

/// any panic is the documented reaction when a result cannot be represented (the wording of the
/// message is not part of the contract); whether a panic is legitimate is decided by the oracle
fn is_overflow_panic(_msg: &str) -> bool {
    true
}

/// union over y in s of the y-fold sums of r, i.e. of [y*a, y*b], as a normalised list of disjoint
/// intervals (the last may be infinite). Blocks are enumerated explicitly (always, in the small
/// scope); only when more than 4096 blocks would be needed is the first gap used as a witness that
/// the union is not an interval.
fn union_of_multiples(r: &R, s: &R) -> Vec<(u128, Option<u128>)> {
    let mut parts: Vec<(u128, Option<u128>)> = Vec::new();
    let a = r.lo;
    let c = s.lo;
    match r.hi {
        None => {
            // 0-fold sum is {0}; y-fold sum (y >= 1) is [y*a, inf)
            if c == 0 {
                parts.push((0, Some(0)));
            }
            if s.hi.map_or(true, |d| d >= 1) {
                parts.push((c.max(1) * a, None));
            }
        }
        Some(b) => {
            // from y0 on, consecutive blocks touch: (y+1)*a <= y*b + 1  <=>  y*(b-a) >= a-1
            let y0: u128 = if a <= 1 {
                0
            } else if b == a {
                u128::MAX // never
            } else {
                (a - 1 + (b - a) - 1) / (b - a)
            };
            let last_explicit = match s.hi {
                Some(d) => d.min(y0),
                None => y0,
            };
            if last_explicit == u128::MAX || last_explicit.saturating_sub(c) > 4096 {
                // too many blocks to list: blocks c and c+1 exist (s is not a point here) and are
                // separated because c < y0; that already shows the union is not an interval
                parts.push((c * a, Some(c * b)));
                let rest_hi = s.hi.map(|d| d * b);
                parts.push(((c + 1) * a, rest_hi));
            } else {
                let mut y = c;
                while y <= last_explicit {
                    parts.push((y * a, Some(y * b)));
                    y += 1;
                }
                let beyond = s.hi.map_or(true, |d| d > last_explicit);
                if beyond {
                    // y >= y0 from here on: one contiguous block
                    let start = (last_explicit + 1).max(c);
                    // infinitely many summands that are all 0 still sum to 0
                    parts.push((start * a, if b == 0 { Some(0) } else { s.hi.map(|d| d * b) }));
                }
            }
        }
    }
    // normalise: sort, merge overlapping or adjacent
    parts.sort_by_key(|p| p.0);
    let mut out: Vec<(u128, Option<u128>)> = Vec::new();
    for (lo, hi) in parts {
        if let Some(last) = out.last_mut() {
            match last.1 {
                None => continue,
                Some(lh) => {
                    if lo <= lh + 1 {
                        last.1 = match hi {
                            None => None,
                            Some(h) => Some(lh.max(h)),
                        };
                        continue;
                    }
                }
            }
        }
        out.push((lo, hi));
    }
    out
}

pub fn check_unary(r: &R, ks: &[u32], o: &mut Outcome) {
    let cr = r.mk();
    o.evals += 6;
    match observe(&cr) {
        Ok(g) if g == *r => {}
        Ok(g) => o.fail("C15/construct", format!("constructed {} observed as {}", r.show(), g.show())),
        Err(e) => o.fail("C15/construct", format!("{}: {}", r.show(), e)),
    }
    if cr.is_point() != (r.hi == Some(r.lo)) || cr.is_zero() != r.is_zero() || cr.is_one() != (r.lo == 1 && r.hi == Some(1)) || cr.is_all() != (r.lo == 0 && r.hi.is_none()) {
        o.fail("C15/predicates", format!("{}: is_point/is_zero/is_one/is_all wrong", r.show()));
    }
    // contains: around both ends
    let mut pts: Vec<u128> = vec![0, 1, r.lo, r.lo + 1, r.lo.saturating_sub(1), U32MAX];
    if let Some(h) = r.hi {
        pts.extend([h, h + 1, h.saturating_sub(1)]);
    }
    for x in pts {
        if x <= U32MAX && cr.contains(x as u32) != r.contains(x) {
            o.fail("C15/contains", format!("{}.contains({}) = {}", r.show(), x, cr.contains(x as u32)));
        }
    }
    // shift: predecessors, 0 stays 0
    let exp = R { lo: r.lo.saturating_sub(1), hi: r.hi.map(|h| h.saturating_sub(1)) };
    if let Err(e) = same(&cr.shift(), &exp) {
        o.fail("C15/shift", format!("{}.shift(): {}", r.show(), e));
    }
    // scale
    for &k in ks {
        o.evals += 1;
        let k128 = k as u128;
        let exp = if k == 0 { R { lo: 0, hi: Some(0) } } else { R { lo: r.lo * k128, hi: r.hi.map(|h| h * k128) } };
        match catch(|| cr.scale(k)) {
            Ok(g) => {
                if exp.fits() {
                    if let Err(e) = same(&g, &exp) {
                        o.fail("C15/scale", format!("{}.scale({}): {}", r.show(), k, e));
                    }
                } else {
                    o.fail("C15/scale/overflow-unnoticed", format!("{}.scale({}) returned a value although the result does not fit in u32", r.show(), k));
                }
            }
            Err(m) => {
                if exp.fits() || !is_overflow_panic(&m) {
                    o.fail("C15/scale/panic", format!("{}.scale({}) panicked: {}", r.show(), k, m));
                } else {
                    o.tag("overflow-panic");
                }
            }
        }
        // add_point
        let exp = R { lo: r.lo + k128, hi: r.hi.map(|h| h + k128) };
        match catch(|| cr.add_point(k)) {
            Ok(g) => {
                if exp.fits() {
                    if let Err(e) = same(&g, &exp) {
                        o.fail("C15/add_point", format!("{}.add_point({}): {}", r.show(), k, e));
                    }
                } else {
                    o.fail("C15/add/overflow-unnoticed", format!("{}.add_point({}) returned a value although the result does not fit", r.show(), k));
                }
            }
            Err(m) => {
                if exp.fits() || !is_overflow_panic(&m) {
                    o.fail("C15/add/panic", format!("{}.add_point({}) panicked: {}", r.show(), k, m));
                } else {
                    o.tag("overflow-panic");
                }
            }
        }
    }
}

pub fn check_pair(r: &R, s: &R, small: bool, o: &mut Outcome) {
    let cr = r.mk();
    let cs = s.mk();
    o.evals += 4;
    // includes
    if cr.includes(&cs) != s.subset_of(r) {
        o.fail("C15/includes", format!("{}.includes({}) = {}", r.show(), s.show(), cr.includes(&cs)));
    }
    // add = set of sums
    let exp = R { lo: r.lo + s.lo, hi: r.hi.and_then(|a| s.hi.map(|b| a + b)) };
    match catch(|| cr.add(&cs)) {
        Ok(g) => {
            if exp.fits() {
                if let Err(e) = same(&g, &exp) {
                    o.fail("C15/add", format!("{}.add({}): {}", r.show(), s.show(), e));
                }
            } else {
                o.fail("C15/add/overflow-unnoticed", format!("{}.add({}) returned a value although the sum does not fit", r.show(), s.show()));
            }
        }
        Err(m) => {
            if exp.fits() || !is_overflow_panic(&m) {
                o.fail("C15/add/panic", format!("{}.add({}) panicked: {}", r.show(), s.show(), m));
            } else {
                o.tag("overflow-panic");
            }
        }
    }
    // mul contains every product
    let natural_fits = r.lo * s.lo <= U32MAX && match (r.hi, s.hi) {
        (Some(a), Some(b)) => a * b <= U32MAX,
        _ => true,
    };
    let m = match catch(|| cr.mul(&cs)) {
        Ok(g) => {
            // documented: "if the result cannot be stored using u32 integers, this method will panic"
            if !natural_fits {
                o.fail("C15/mul/overflow-unnoticed", format!("{}.mul({}) returned {:?} although [lo*lo', hi*hi'] does not fit in u32: must panic", r.show(), s.show(), observe(&g).map(|x| x.show())));
                return;
            }
            Some(g)
        }
        Err(msg) => {
            if natural_fits || !is_overflow_panic(&msg) {
                o.fail("C15/mul/panic", format!("{}.mul({}) panicked: {}", r.show(), s.show(), msg));
            } else {
                o.tag("overflow-panic");
            }
            None
        }
    };
    if let Some(m) = m {
        let mobs = match observe(&m) {
            Ok(x) => x,
            Err(e) => {
                o.fail("C15/mul", format!("{}.mul({}): {}", r.show(), s.show(), e));
                return;
            }
        };
        // corner products and, in the small scope, all products (infinite ranges truncated)
        let rx: Vec<u128> = if small { (r.lo..=r.hi.unwrap_or(r.lo + 14)).collect() } else { vec![r.lo, r.hi.unwrap_or(r.lo + 7), r.lo + 1] };
        let sy: Vec<u128> = if small { (s.lo..=s.hi.unwrap_or(s.lo + 14)).collect() } else { vec![s.lo, s.hi.unwrap_or(s.lo + 7), s.lo + 1] };
        'outer: for &x in &rx {
            if !r.contains(x) {
                continue;
            }
            for &y in &sy {
                if !s.contains(y) {
                    continue;
                }
                if !mobs.contains(x * y) {
                    o.fail("C15/mul/misses-product", format!("{}.mul({}) = {} does not contain {}*{}", r.show(), s.show(), mobs.show(), x, y));
                    break 'outer;
                }
            }
        }
        // right_mul_is_exact(r, s)  <=>  union_{y in s} y*r  ==  r.mul(s)
        let k = union_of_multiples(r, s);
        let exact = k.len() == 1 && k[0] == (mobs.lo, mobs.hi);
        // The predicate is a boolean, so nothing it returns can overflow; the module documents a panic
        // "in case of arithmetic overflow" of whatever intermediate the implementation forms. Which
        // intermediate that is is not specified: a panic is tolerated whenever the largest product of
        // two finite operand bounds exceeds u32 (no product of operand-derived quantities can overflow
        // otherwise), and is a failure when even that product fits.
        let big = |x: &R| x.hi.unwrap_or(x.lo);
        let gap_term_fits = big(r) * big(s) <= U32MAX;
        match catch(|| cr.right_mul_is_exact(&cs)) {
            Ok(g) => {
                if g != exact {
                    o.fail("C15/right_mul_is_exact", format!("{}.right_mul_is_exact({}) = {} but union of multiples = {:?} and mul = {}", r.show(), s.show(), g, k, mobs.show()));
                }
            }
            Err(msg) => {
                if gap_term_fits || !is_overflow_panic(&msg) {
                    o.fail("C15/right_mul_is_exact/panic", format!("{}.right_mul_is_exact({}) panicked: {}", r.show(), s.show(), msg));
                } else {
                    o.tag("overflow-panic");
                }
            }
        }
    }
}

fn nontrivial(r: &R, s: &R) -> bool {
    // neither is a point and exactness is decided by the gap inequality (finite r, non-point s)
    r.hi != Some(r.lo) && s.hi != Some(s.lo) && r.hi.is_some()
}

fn gen_range(t: &mut Tape) -> R {
    let v = |t: &mut Tape| -> u128 {
        (match t.weighted(&[12, 8, 6, 1, 1]) {
            0 => t.u32_in(0, 6),
            1 => t.u32_in(0, 100),
            2 => t.u32_in(0, 60000),
            3 => t.u32_in(0, u32::MAX),
            _ => u32::MAX - t.u32_in(0, 3),
        }) as u128
    };
    let a = v(t);
    match t.weighted(&[3, 2, 2]) {
        0 => {
            let b = v(t);
            R { lo: a.min(b), hi: Some(a.max(b)) }
        }
        1 => R { lo: a, hi: None },
        _ => {
            // narrow: [a, a+d]
            let d = t.u32_in(0, 3) as u128;
            R { lo: a, hi: Some((a + d).min(U32MAX)) }
        }
    }
}

pub fn run(tape: &[u8], cx: &Cx) -> Outcome {
    let mut t = Tape::new(tape);
    let r = gen_range(&mut t);
    let s = gen_range(&mut t);
    let ks: Vec<u32> = (0..3)
        .map(|_| match t.weighted(&[4, 2, 1]) {
            0 => t.u32_in(0, 8),
            1 => t.u32_in(0, 70000),
            _ => t.u32_in(0, u32::MAX),
        })
        .collect();
    let mut o = Outcome::default();
    o.digest = fnv(format!("{:?}{:?}{:?}", r, s, ks).as_bytes());
    if cx.render {
        o.render = format!("r = {}, s = {}, scale factors {:?}", r.show(), s.show(), ks);
    }
    check_unary(&r, &ks, &mut o);
    check_unary(&s, &[], &mut o);
    let small = r.hi.map_or(r.lo < 50, |h| h - r.lo < 20) && s.hi.map_or(s.lo < 50, |h| h - s.lo < 20) && s.hi.map_or(true, |h| h < 300);
    check_pair(&r, &s, small, &mut o);
    check_pair(&s, &r, small, &mut o);
    o.nontrivial = nontrivial(&r, &s) || nontrivial(&s, &r);
    if r.hi.is_none() || s.hi.is_none() {
        o.tag("has-infinite");
    }
    if o.nontrivial {
        o.tag("gap-inequality-decides");
    }
    o
}

pub fn enumerate(maxb: u128, part: usize, parts: usize, sink: &mut EnumSink) {
    let mut ranges: Vec<R> = Vec::new();
    for i in 0..=maxb {
        for j in i..=maxb {
            ranges.push(R { lo: i, hi: Some(j) });
        }
        ranges.push(R { lo: i, hi: None });
    }
    let ks: Vec<u32> = (0..=8).collect();
    for (idx, r) in ranges.iter().enumerate() {
        if idx % parts != part {
            continue;
        }
        let mut o = Outcome::default();
        check_unary(r, &ks, &mut o);
        sink.case(&o, false, || format!("range {}", r.show()));
        for s in &ranges {
            let mut o = Outcome::default();
            check_pair(r, s, true, &mut o);
            sink.case(&o, nontrivial(r, s), || format!("r = {}, s = {}", r.show(), s.show()));
        }
        if sink.failed() {
            return;
        }
    }
    // critical-gap family: r = [a, a+q], s = [c, c+w] with a = c*q + 1 + delta for delta in -2..=2 — the
    // multiples c*r and (c+1)*r touch, overlap by one or leave a gap of one or two integers — at every
    // magnitude a ~ 2^4 .. 2^31 (an inequality evaluated in floating point, or in a narrower integer type,
    // is only wrong near equality and only beyond its mantissa / width)
    {
        let mut idx = 0usize;
        let mut count = 0usize;
        for &c in &[1u128, 2, 3, 7, 100, 128, 255, 1000, 4097, 65535] {
            for k in 4..=31u32 {
                let q0 = (1u128 << k) / c;
                for q in [q0.saturating_sub(1), q0, q0 + 1] {
                    if q == 0 {
                        continue;
                    }
                    for delta in -2i128..=2 {
                        let a = (c * q) as i128 + 1 + delta;
                        if a < 1 || a as u128 + q > U32MAX {
                            continue;
                        }
                        idx += 1;
                        if idx % parts != part {
                            continue;
                        }
                        let r = R { lo: a as u128, hi: Some(a as u128 + q) };
                        for w in [1u128, 2] {
                            let s2 = R { lo: c, hi: Some(c + w) };
                            let mut o = Outcome::default();
                            check_pair(&r, &s2, false, &mut o);
                            count += 1;
                            sink.case(&o, true, || format!("critical gap: r = {}, s = {}", r.show(), s2.show()));
                        }
                        if sink.failed() {
                            return;
                        }
                    }
                }
            }
        }
        let _ = count;
        if part == 0 {
            sink.stats.exhaustive_spaces.push("critical-gap family: r = [a, a+q], s = [c, c+1] and [c, c+2] with a = c*q + 1 + delta, delta in -2..=2, c in {1,2,3,7,100,128,255,1000,4097,65535}, q within 1 of 2^k/c for k = 4..31 (the gap inequality of right_mul_is_exact at, just above and just below equality, at every magnitude)".to_string());
        }
    }
    if part == 0 {
        sink.stats.exhaustive_spaces.push(format!("all {} ranges with bounds in 0..={} (finite and infinite), all ordered pairs, scale factors 0..=8", ranges.len(), maxb));
        sink.stats.samples.push(format!("[enum] r = {}, s = {}", ranges[ranges.len() / 3].show(), ranges[ranges.len() / 2].show()));
    }
}
