//! C10 — regex replace uses the leftmost, then shortest, match as SMT-LIB defines.

use crate::atoms::show_str;
use crate::prog::{smt, Ins, Prog, ProgCfg};
use crate::runner::{catch, Cx, Outcome};
use crate::rx;
use crate::tape::{fnv, Tape};
use aws_smt_strings::smt_regular_expressions as w;

/// SMT-LIB str.replace_re from the membership matrix m (m[i][j] <=> s[i..j] in L)
fn ref_replace(s: &[u32], t: &[u32], m: &dyn Fn(usize, usize) -> bool) -> Vec<u32> {
    let n = s.len();
    for i in 0..=n {
        for j in i..=n {
            if m(i, j) {
                let mut v = s[..i].to_vec();
                v.extend_from_slice(t);
                v.extend_from_slice(&s[j..]);
                return v;
            }
        }
    }
    s.to_vec()
}

/// SMT-LIB str.replace_re_all: leftmost shortest NON-EMPTY matches, left to right
fn ref_replace_all(s: &[u32], t: &[u32], m: &dyn Fn(usize, usize) -> bool) -> (Vec<u32>, usize) {
    let n = s.len();
    let mut out = Vec::new();
    let mut p = 0;
    let mut count = 0;
    'scan: while p <= n {
        for i in p..n {
            for j in i + 1..=n {
                if m(i, j) {
                    out.extend_from_slice(&s[p..i]);
                    out.extend_from_slice(t);
                    p = j;
                    count += 1;
                    continue 'scan;
                }
            }
        }
        break;
    }
    out.extend_from_slice(&s[p.min(n)..]);
    (out, count)
}

pub fn run(tape: &[u8], cx: &Cx) -> Outcome {
    let (ta, tb) = tape.split_at(tape.len() * 2 / 5);
    let mut t = Tape::new(ta);
    let mut tp = Tape::new(tb);
    let cfg = ProgCfg { tiny_alphabet: true, max_ins: 8, small_bound: 3, ..ProgCfg::default() };
    // a sixth of the patterns: the union of a pattern pair of C16's generator (rigid ranges around Sigma*
    // sections against a near-miss instance): a union that drops an alternative it wrongly believes
    // subsumed loses the matches only that alternative has
    let pair_mode = tp.bool_p(42);
    let mut prog = if pair_mode {
        let (mut p, s, r) = crate::p_c16::gen_pair(&mut tp);
        p.ins.push(if tp.flag() { Ins::Union(s, r) } else { Ins::Union(r, s) });
        p
    } else {
        Prog::decode(&mut tp, &cfg)
    };
    // a sixth of the patterns end in nested alternatives of one word: w | w[1..n-1] | w[2..n-2] | ...
    // (several candidate matches, each starting later and ending earlier than the previous one)
    let mut nested_word: Option<Vec<u32>> = None;
    if tp.bool_p(42) {
        let len = 4 + tp.choose(4);
        let w: Vec<u32> = (0..len).map(|_| prog.atoms.pick_landmark(&mut tp)).collect();
        let mut alts = Vec::new();
        let mut k = 0;
        while 2 * k < len {
            prog.ins.push(Ins::Str(w[k..len - k].to_vec()));
            alts.push(prog.ins.len() - 1);
            k += 1;
        }
        // the order of the alternatives must not matter
        if tp.flag() {
            alts.reverse();
        }
        prog.ins.push(Ins::UnionList(alts));
        nested_word = Some(w);
    }
    let prog = prog;
    // subjects over the atom representatives, biased to the landmarks so that matches are frequent
    let nsub = 1 + t.choose(3);
    let gen = |t: &mut Tape, max: usize| -> Vec<u32> {
        let n = t.choose(max + 1);
        (0..n)
            .map(|_| match t.weighted(&[20, 4, 2]) {
                0 => prog.atoms.pick_landmark(t),
                1 => prog.atoms.pick_char(t),
                _ => {
                    // a character that agrees with a landmark on its low 8 or 16 bits
                    let l = prog.atoms.pick_landmark(t);
                    let c = (l & 0xFF) + t.pick(&[0x100u32, 0x1000, 0x10000, 0x20000, 0x2FF00]);
                    c.min(0x2FFFF)
                }
            })
            .collect()
    };
    let mut subjects: Vec<Vec<u32>> = (0..nsub).map(|_| gen(&mut t, 8)).collect();
    if let Some(w) = &nested_word {
        let mut s2 = gen(&mut t, 3);
        s2.extend(w);
        s2.extend(gen(&mut t, 3));
        subjects.push(s2);
    }
    // an eighth of the cases: one long subject (a short block repeated past 256 characters, with a few
    // perturbations), judged by the reference DFA instead of the cubic DP matcher
    let mut long_subject = false;
    if t.bool_p(32) {
        let block = gen(&mut t, 3);
        if !block.is_empty() {
            let target = 250 + t.choose(90);
            let mut s2: Vec<u32> = Vec::with_capacity(target + 8);
            s2.extend(gen(&mut t, 2));
            while s2.len() < target {
                s2.extend(&block);
            }
            for _ in 0..t.choose(4) {
                let k = t.choose(s2.len());
                s2[k] = prog.atoms.pick_char(&mut t);
            }
            s2.extend(gen(&mut t, 3));
            subjects.push(s2);
            long_subject = true;
        }
    }
    let repl = gen(&mut t, 3);
    let mut o = Outcome::default();
    o.digest = fnv(format!("{:?}{:?}{:?}{:?}", prog.atoms.landmarks, prog.ins, subjects, repl).as_bytes());
    if cx.render {
        o.render = format!("{} ; subjects {} ; replacement {}", prog.render(), subjects.iter().map(|s| show_str(s)).collect::<Vec<_>>().join(" "), show_str(&repl));
    }
    let last = prog.ins.len() - 1;
    // reference results first (pure): membership of every substring — DP matrix for short subjects, runs
    // of the reference DFA for long ones — then leftmost-shortest replacement on that matrix
    let dfas = if long_subject { prog.dfas().ok() } else { None };
    let mut tables: Vec<Option<Vec<Vec<bool>>>> = Vec::new();
    for s in &subjects {
        let n = s.len();
        let table: Option<Vec<Vec<bool>>> = if n > 40 {
            match &dfas {
                Some(d) => {
                    let d = &d[last];
                    let wa = prog.word_atoms(s);
                    Some(
                        (0..=n)
                            .map(|i| {
                                let mut row = vec![false; n + 1];
                                let mut q = d.start;
                                row[i] = d.is_final(q);
                                for j in i..n {
                                    q = d.step(q, wa[j]);
                                    row[j + 1] = d.is_final(q);
                                }
                                row
                            })
                            .collect(),
                    )
                }
                None => None,
            }
        } else {
            let mat = &prog.dp(s)[last];
            Some((0..=n).map(|i| (0..=n).map(|j| j >= i && mat.get(i, j)).collect()).collect())
        };
        tables.push(table);
    }
    let expected: Vec<Option<(Vec<u32>, Vec<u32>, usize)>> = subjects
        .iter()
        .zip(tables.iter())
        .map(|(s, tb)| {
            tb.as_ref().map(|table| {
                let m = |i: usize, j: usize| table[i][j];
                let exp_a = ref_replace(s, &repl, &m);
                let (exp_b, count) = ref_replace_all(s, &repl, &m);
                (exp_a, exp_b, count)
            })
        })
        .collect();
    // run through the wrappers in a fresh thread (fresh thread-local manager). str_replace_re is judged
    // before str_replace_re_all is called at all: a search that reports a wrong match can keep
    // replace_all from ever advancing, and a check that hangs reports nothing
    let p2 = prog.clone();
    let subs = subjects.clone();
    let rp = repl.clone();
    let exp_first: Vec<Option<Vec<u32>>> = expected.iter().map(|e| e.as_ref().map(|x| x.0.clone())).collect();
    let res = crate::runner::spawn_user_thread(move || {
        catch(move || {
            let terms = p2.build_wrapped();
            let e = *terms.last().unwrap();
            let r = smt(&rp);
            let mut out: Vec<(Vec<u32>, Option<(Vec<u32>, Vec<u32>, Vec<u32>)>)> = Vec::new();
            for (s, exp) in subs.iter().zip(exp_first.iter()) {
                let cs = smt(s);
                let a1 = w::str_replace_re(&cs, e, &r).as_ref().to_vec();
                if let Some(x) = exp {
                    if *x != a1 {
                        out.push((a1, None));
                        break;
                    }
                }
                // call each function twice: the second call runs on a warm derivative cache
                let b1 = w::str_replace_re_all(&cs, e, &r);
                let a2 = w::str_replace_re(&cs, e, &r);
                let b2 = w::str_replace_re_all(&cs, e, &r);
                out.push((a1, Some((b1.as_ref().to_vec(), a2.as_ref().to_vec(), b2.as_ref().to_vec()))));
            }
            (out, e.nullable)
        })
    })
    .join()
    .unwrap_or_else(|_| Err("wrapper thread died".into()));
    let (rows, nullable) = match res {
        Ok(x) => x,
        Err(msg) => {
            if rx::is_overflow(&msg, prog.max_loop_bound()) {
                return Outcome::discarded("loop-range arithmetic overflow (documented panic)");
            }
            o.fail("C10/panics", format!("regex replace panicked: {}", msg));
            return o;
        }
    };
    for ((s, (a1, rest)), (exp, tb)) in subjects.iter().zip(rows.iter()).zip(expected.iter().zip(tables.iter())) {
        let n = s.len();
        let (exp_a, exp_b, count) = match exp {
            Some(x) => (&x.0, &x.1, x.2),
            None => {
                o.tag("long-subject-skipped");
                continue;
            }
        };
        if n > 40 {
            o.tag("long-subject");
        }
        let table = tb.as_ref().unwrap();
        let m = |i: usize, j: usize| table[i][j];
        let m = &m;
        o.evals += 2;
        if a1 != exp_a {
            o.fail("C10/replace_re", format!("str_replace_re({}, r{}, {}) = {}, expected {}", show_str(s), last, show_str(&repl), show_str(a1), show_str(exp_a)));
            return o;
        }
        let (b1, a2, b2) = match rest {
            Some(x) => (&x.0, &x.1, &x.2),
            None => continue,
        };
        if b1 != exp_b {
            o.fail("C10/replace_re_all", format!("str_replace_re_all({}, r{}, {}) = {}, expected {}", show_str(s), last, show_str(&repl), show_str(b1), show_str(exp_b)));
            return o;
        }
        if a2 != a1 || b2 != b1 {
            o.fail("C10/not-repeatable", format!("a second call on {} gives a different result", show_str(s)));
            return o;
        }
        // classification
        let any_match = (0..=n).any(|i| (i..=n).any(|j| m(i, j)));
        if any_match {
            o.tag("match-exists");
            // several candidate lengths at the chosen start
            let start = (0..=n).find(|&i| (i..=n).any(|j| m(i, j))).unwrap();
            let lens = (start..=n).filter(|&j| m(start, j)).count();
            if nullable || lens >= 2 || count >= 2 {
                o.nontrivial = true;
            }
            if lens >= 2 {
                o.tag(">=2-match-lengths-at-start");
            }
            if start > 0 {
                o.tag("match-not-at-0");
            }
        }
        if count >= 2 {
            o.tag(">=2-replacements");
        }
    }
    if nullable {
        o.tag("nullable-pattern");
    }
    if nested_word.is_some() {
        o.tag("nested-alternatives");
    }
    if pair_mode {
        o.tag("pattern-pair");
    }
    if prog.has(|i| matches!(i, Ins::Complement(_))) {
        o.tag("has-complement");
    }
    o
}
