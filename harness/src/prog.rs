//! R1: regular-expression construction programs (straight-line, SSA), their
//! SMT-LIB denotation (R3: DP matcher, R4: reference DFA), and their execution
//! on the crate (ReManager methods or the SMT-LIB-named thread-local wrappers).

use crate::atoms::{show_char, show_str, Atoms, MAX};
use crate::rdfa::{Dfa, TooBig};
use crate::tape::Tape;
use aws_smt_strings::character_sets::CharSet;
use aws_smt_strings::loop_ranges::LoopRange;
use aws_smt_strings::regular_expressions::{ReManager, RegLan};
use aws_smt_strings::smt_regular_expressions as w;
use aws_smt_strings::smt_strings::SmtString;

#[derive(Clone, Debug, PartialEq, Eq, Hash)]
pub enum Ins {
    Empty,
    Full,
    Epsilon,
    SigmaPlus,
    AllChars,
    Char(u32),
    Range(u32, u32),
    CharSet(u32, u32),
    Str(Vec<u32>),
    SmtRange(Vec<u32>, Vec<u32>),
    Concat(usize, usize),
    ConcatList(Vec<usize>),
    Union(usize, usize),
    UnionList(Vec<usize>),
    Inter(usize, usize),
    InterList(Vec<usize>),
    Complement(usize),
    Diff(usize, usize),
    DiffList(usize, Vec<usize>),
    Star(usize),
    Plus(usize),
    Opt(usize),
    Exp(usize, u32),
    SmtLoop(usize, u32, u32),
    MkLoop(usize, u32, Option<u32>),
}

impl Ins {
    pub fn operands(&self) -> Vec<usize> {
        use Ins::*;
        match self {
            Concat(a, b) | Union(a, b) | Inter(a, b) | Diff(a, b) => vec![*a, *b],
            ConcatList(v) | UnionList(v) | InterList(v) => v.clone(),
            DiffList(a, v) => {
                let mut r = vec![*a];
                r.extend(v);
                r
            }
            Complement(a) | Star(a) | Plus(a) | Opt(a) | Exp(a, _) | SmtLoop(a, _, _) | MkLoop(a, _, _) => vec![*a],
            _ => vec![],
        }
    }
    pub fn is_loop(&self) -> bool {
        matches!(self, Ins::Star(_) | Ins::Plus(_) | Ins::Opt(_) | Ins::Exp(..) | Ins::SmtLoop(..) | Ins::MkLoop(..))
    }
    pub fn is_boolean(&self) -> bool {
        matches!(self, Ins::Inter(..) | Ins::InterList(..) | Ins::Complement(..) | Ins::Diff(..) | Ins::DiffList(..))
    }
    /// (lo, hi) of a loop-like instruction, None when the SMT-LIB meaning is the empty language (i > j)
    pub fn loop_bounds(&self) -> Option<(u32, Option<u32>)> {
        match self {
            Ins::Star(_) => Some((0, None)),
            Ins::Plus(_) => Some((1, None)),
            Ins::Opt(_) => Some((0, Some(1))),
            Ins::Exp(_, k) => Some((*k, Some(*k))),
            Ins::SmtLoop(_, i, j) => {
                if i <= j {
                    Some((*i, Some(*j)))
                } else {
                    None
                }
            }
            Ins::MkLoop(_, i, j) => Some((*i, *j)),
            _ => None,
        }
    }
    pub fn max_bound(&self) -> u32 {
        match self {
            Ins::Exp(_, k) => *k,
            Ins::SmtLoop(_, i, j) => (*i).max(*j),
            Ins::MkLoop(_, i, j) => j.unwrap_or(*i).max(*i),
            _ => 1,
        }
    }
    pub fn name(&self) -> &'static str {
        use Ins::*;
        match self {
            Empty => "empty",
            Full => "full",
            Epsilon => "epsilon",
            SigmaPlus => "sigma_plus",
            AllChars => "all_chars",
            Char(_) => "char",
            Range(..) => "range",
            CharSet(..) => "char_set",
            Str(_) => "str",
            SmtRange(..) => "smt_range",
            Concat(..) => "concat",
            ConcatList(_) => "concat_list",
            Union(..) => "union",
            UnionList(_) => "union_list",
            Inter(..) => "inter",
            InterList(_) => "inter_list",
            Complement(_) => "complement",
            Diff(..) => "diff",
            DiffList(..) => "diff_list",
            Star(_) => "star",
            Plus(_) => "plus",
            Opt(_) => "opt",
            Exp(..) => "exp",
            SmtLoop(..) => "smt_loop",
            MkLoop(..) => "mk_loop",
        }
    }
}

#[derive(Clone, Debug)]
pub struct Prog {
    pub atoms: Atoms,
    pub ins: Vec<Ins>,
}

/// generator configuration
#[derive(Clone, Debug)]
pub struct ProgCfg {
    pub max_landmarks: usize,
    pub max_ins: usize,
    /// maximal loop bound in the normal stream
    pub small_bound: u32,
    /// probability (out of 256) that a program uses the large-bound stream
    pub big_p: u32,
    pub big_bound: u32,
    /// restrict the alphabet (C10): at most this many landmarks, all from a..c
    pub tiny_alphabet: bool,
    /// bias towards semantically empty sub-terms (C05/C18)
    pub empties: bool,
}

impl ProgCfg {
    /// the thorough tier explores larger programs over more landmarks
    pub fn scaled(mut self, thorough: bool) -> ProgCfg {
        if thorough && !self.tiny_alphabet {
            self.max_ins += 4;
            self.max_landmarks = 8;
        }
        self
    }
}

impl Default for ProgCfg {
    fn default() -> Self {
        ProgCfg { max_landmarks: 6, max_ins: 12, small_bound: 4, big_p: 0, big_bound: 150, tiny_alphabet: false, empties: false }
    }
}

fn pick_slot(t: &mut Tape, n: usize) -> usize {
    // half of the time one of the two most recent slots, otherwise any slot
    debug_assert!(n > 0);
    let back = if t.flag() { t.choose(n) } else { t.choose(2.min(n)) };
    n - 1 - back
}

/// second operand of a binary constructor: usually different from the first
fn pick_other(t: &mut Tape, n: usize, first: usize) -> usize {
    let b = pick_slot(t, n);
    if b == first && n > 1 && t.bool_p(200) {
        let c = t.choose(n - 1);
        if c >= first {
            c + 1
        } else {
            c
        }
    } else {
        b
    }
}

fn pick_slots(t: &mut Tape, n: usize, max_len: usize) -> Vec<usize> {
    let len = t.choose(max_len + 1);
    (0..len).map(|_| pick_slot(t, n)).collect()
}

fn pick_bound(t: &mut Tape, cfg: &ProgCfg, big: bool) -> u32 {
    if big && t.bool_p(128) {
        match t.weighted(&[4, 2, 1]) {
            0 => t.u32_in(5, 20),
            1 => t.u32_in(20, cfg.big_bound),
            _ => cfg.big_bound,
        }
    } else {
        // 0 and 1 and 2 over-weighted
        match t.weighted(&[3, 3, 3, 2]) {
            0 => 0,
            1 => 1,
            2 => 2,
            _ => t.u32_in(0, cfg.small_bound),
        }
    }
}

pub fn gen_string(t: &mut Tape, atoms: &Atoms, max_len: usize) -> Vec<u32> {
    let len = t.choose(max_len + 1);
    (0..len).map(|_| atoms.pick_char(t)).collect()
}

impl Prog {
    pub fn decode(t: &mut Tape, cfg: &ProgCfg) -> Prog {
        let atoms = if cfg.tiny_alphabet {
            let n = 1 + t.choose(3);
            let mut l: Vec<u32> = (0..n).map(|i| 0x61 + i as u32).collect();
            // sometimes a far-away landmark that agrees with 'a' on its low bits (table / hash aliasing)
            if t.bool_p(50) {
                l.push(t.pick(&[0x161u32, 0x10061, 0x2FF61, 0x6100]));
            }
            Atoms::from_landmarks(l)
        } else {
            Atoms::decode(t, cfg.max_landmarks)
        };
        let big = cfg.big_p > 0 && t.bool_p(cfg.big_p);
        let mut ins: Vec<Ins> = Vec::new();
        // a quarter of the programs start with a class-rich term: the union of 2-4 ranges / characters
        // (several derivative classes, several automaton ranges per state)
        if !cfg.tiny_alphabet && cfg.max_ins >= 6 && t.bool_p(64) {
            let k = 2 + t.choose(3);
            for _ in 0..k {
                let leaf = if t.flag() {
                    let (a, b) = atoms.pick_range(t);
                    Ins::Range(a, b)
                } else {
                    Ins::Char(atoms.pick_landmark(t))
                };
                ins.push(leaf);
            }
            ins.push(Ins::UnionList((0..k).collect()));
        }
        loop {
            let n = ins.len();
            if n >= cfg.max_ins || (n >= 1 && t.exhausted()) {
                break;
            }
            // now and then: two different spellings of the same one-word language, combined
            // (syntactically different, semantically equal terms are what rewriting gets wrong)
            if n + 7 <= cfg.max_ins && t.bool_p(24) {
                Self::decode_respell(t, &atoms, &mut ins);
                continue;
            }
            // now and then: two loops over the very same body with different ranges, combined
            // (range arithmetic in the constructors: joins, intersections, flattening)
            if n + 5 <= cfg.max_ins && t.bool_p(20) {
                Self::decode_loop_pair(t, &atoms, cfg, &mut ins);
                continue;
            }
            // (emptiness properties) now and then: a term that is empty — or universal — as a language
            // without being the syntactic constant, then used as an operand like any other slot
            if cfg.empties && n >= 1 && n + 5 <= cfg.max_ins && t.bool_p(56) {
                Self::decode_semantically_empty(t, &atoms, &mut ins);
                continue;
            }
            let i = Self::decode_ins(t, &atoms, cfg, big, n);
            ins.push(i);
        }
        Prog { atoms, ins }
    }

    /// Appends 2-5 instructions whose last one denotes the empty language (or, complemented, every
    /// string) for a semantic reason: x minus a superset of x, two different words intersected, a word
    /// intersected with a language of other lengths, "not epsilon and not non-empty", a concatenation
    /// or positive loop over such a term. The last slot pushed is the interesting one.
    pub fn decode_semantically_empty(t: &mut Tape, atoms: &Atoms, ins: &mut Vec<Ins>) {
        let n0 = ins.len();
        let x = pick_slot(t, n0);
        let push = |ins: &mut Vec<Ins>, i: Ins| -> usize {
            ins.push(i);
            ins.len() - 1
        };
        let e = match t.weighted(&[3, 3, 2, 2, 2]) {
            0 => {
                // x & ~(x | y)
                let y = pick_slot(t, n0);
                let u = push(ins, Ins::Union(x, y));
                let c = push(ins, Ins::Complement(u));
                push(ins, Ins::Inter(x, c))
            }
            1 => {
                // two different words
                let len = 1 + t.choose(3);
                let w1: Vec<u32> = (0..len).map(|_| atoms.pick_landmark(t)).collect();
                let mut w2 = w1.clone();
                let k = t.choose(len);
                // (program characters are landmarks: with a single landmark the second word is longer instead)
                match atoms.landmarks.iter().find(|&&l| l != w1[k]) {
                    Some(&l) => w2[k] = l,
                    None => w2.push(w1[k]),
                }
                let a = push(ins, Ins::Str(w1));
                let b = push(ins, Ins::Str(w2));
                push(ins, Ins::Inter(a, b))
            }
            2 => {
                // Sigma^k & Sigma^[k+1, k+2]
                let k = t.choose(3) as u32;
                let all = push(ins, Ins::AllChars);
                let a = push(ins, Ins::Exp(all, k));
                let b = push(ins, Ins::SmtLoop(all, k + 1, k + 2));
                push(ins, Ins::Inter(a, b))
            }
            3 => {
                // ~(eps | Sigma+)
                let eps = push(ins, Ins::Epsilon);
                let sp = push(ins, Ins::SigmaPlus);
                let u = push(ins, Ins::Union(eps, sp));
                push(ins, Ins::Complement(u))
            }
            _ => {
                // x \ (x | y), by diff
                let y = pick_slot(t, n0);
                let u = push(ins, Ins::Union(y, x));
                push(ins, Ins::Diff(x, u))
            }
        };
        // often wrapped: the complement (universal), a concatenation with x, a positive loop
        match t.weighted(&[4, 3, 2, 2]) {
            0 => {}
            1 => {
                push(ins, Ins::Complement(e));
            }
            2 => {
                if t.flag() {
                    push(ins, Ins::Concat(x, e));
                } else {
                    push(ins, Ins::Concat(e, x));
                }
            }
            _ => {
                push(ins, Ins::Plus(e));
            }
        }
    }

    /// body^[r1] and body^[r2] (same body term, different ranges, finite or unbounded) combined by
    /// union / intersection / difference / concatenation; the body is an earlier slot or a fresh small
    /// term whose words may have different lengths
    fn decode_loop_pair(t: &mut Tape, atoms: &Atoms, cfg: &ProgCfg, ins: &mut Vec<Ins>) {
        let body = if !ins.is_empty() && t.flag() {
            pick_slot(t, ins.len())
        } else {
            let c1 = atoms.pick_landmark(t);
            match t.choose(4) {
                0 => ins.push(Ins::Char(c1)),
                1 => ins.push(Ins::Str(vec![c1, atoms.pick_landmark(t)])),
                2 => {
                    // c | cc : the number of iterations is not determined by the word
                    ins.push(Ins::Str(vec![c1]));
                    let a = ins.len() - 1;
                    ins.push(Ins::Str(vec![c1, c1]));
                    let b = ins.len() - 1;
                    ins.push(Ins::Union(a, b));
                }
                _ => {
                    ins.push(Ins::Char(c1));
                    let a = ins.len() - 1;
                    ins.push(Ins::Opt(a));
                }
            }
            ins.len() - 1
        };
        let range = |t: &mut Tape| -> (u32, Option<u32>) {
            let lo = t.u32_in(0, cfg.small_bound);
            if t.bool_p(90) {
                (lo, None)
            } else {
                (lo, Some(lo + t.u32_in(0, 2)))
            }
        };
        let (l1, h1) = range(t);
        let (l2, h2) = range(t);
        ins.push(Ins::MkLoop(body, l1, h1));
        let a = ins.len() - 1;
        ins.push(Ins::MkLoop(body, l2, h2));
        let b = ins.len() - 1;
        ins.push(match t.choose(5) {
            0 => Ins::Union(a, b),
            1 => Ins::Inter(a, b),
            2 => Ins::Diff(a, b),
            3 => Ins::Concat(a, b),
            _ => Ins::Union(b, a),
        });
    }

    /// a word w = u^k (+ tail) spelled as str(w) and in another way, then combined
    pub fn decode_respell(t: &mut Tape, atoms: &Atoms, ins: &mut Vec<Ins>) {
        let ulen = 1 + t.choose(2);
        let u: Vec<u32> = (0..ulen).map(|_| atoms.pick_landmark(t)).collect();
        let k = 2 + t.choose(2);
        let mut w: Vec<u32> = Vec::new();
        for _ in 0..k {
            w.extend(&u);
        }
        let tail: Vec<u32> = if t.bool_p(80) { vec![atoms.pick_landmark(t)] } else { vec![] };
        let mut full = w.clone();
        full.extend(&tail);
        ins.push(Ins::Str(full.clone()));
        let a = ins.len() - 1;
        // second spelling
        match t.choose(3) {
            0 => {
                ins.push(Ins::Str(u.clone()));
                let us = ins.len() - 1;
                ins.push(Ins::Exp(us, k as u32));
                if !tail.is_empty() {
                    let e = ins.len() - 1;
                    ins.push(Ins::Str(tail.clone()));
                    let ts = ins.len() - 1;
                    ins.push(Ins::Concat(e, ts));
                }
            }
            1 => {
                let m = 1 + t.choose(full.len() - 1);
                ins.push(Ins::Str(full[..m].to_vec()));
                let x = ins.len() - 1;
                ins.push(Ins::Str(full[m..].to_vec()));
                let y = ins.len() - 1;
                ins.push(Ins::Concat(x, y));
            }
            _ => {
                // ((u.u).u)... built by repeated binary concatenation of str(u)
                ins.push(Ins::Str(u.clone()));
                let us = ins.len() - 1;
                let mut acc = us;
                for _ in 1..k {
                    ins.push(Ins::Concat(acc, us));
                    acc = ins.len() - 1;
                }
                if !tail.is_empty() {
                    ins.push(Ins::Str(tail.clone()));
                    let ts = ins.len() - 1;
                    ins.push(Ins::Concat(acc, ts));
                }
            }
        }
        let b = ins.len() - 1;
        ins.push(match t.choose(4) {
            0 => Ins::Inter(a, b),
            1 => Ins::Union(a, b),
            2 => Ins::Diff(a, b),
            _ => Ins::Inter(b, a),
        });
    }

    pub fn decode_leaf(t: &mut Tape, atoms: &Atoms) -> Ins {
        match t.weighted(&[6, 6, 3, 4, 2, 1, 1, 1, 1, 2]) {
            0 => Ins::Char(atoms.pick_landmark(t)),
            1 => {
                let (a, b) = atoms.pick_range(t);
                Ins::Range(a, b)
            }
            2 => {
                let (a, b) = atoms.pick_range(t);
                Ins::CharSet(a, b)
            }
            3 => {
                let len = t.choose(5);
                Ins::Str((0..len).map(|_| atoms.pick_landmark(t)).collect())
            }
            4 => Ins::AllChars,
            5 => Ins::Empty,
            6 => Ins::Full,
            7 => Ins::Epsilon,
            8 => Ins::SigmaPlus,
            _ => {
                // smt_range on arbitrary strings: singletons in either order, or non-singletons
                let mk = |t: &mut Tape| -> Vec<u32> {
                    match t.weighted(&[10, 1, 1]) {
                        0 => vec![atoms.pick_landmark(t)],
                        1 => vec![],
                        _ => vec![atoms.pick_landmark(t), atoms.pick_landmark(t)],
                    }
                };
                let s1 = mk(t);
                let s2 = mk(t);
                // make sure the meaning is a union of atoms: both singletons are landmarks, so
                // [c1, c2] is a union of atoms when c1 <= c2
                Ins::SmtRange(s1, s2)
            }
        }
    }

    pub fn decode_ins(t: &mut Tape, atoms: &Atoms, cfg: &ProgCfg, big: bool, n: usize) -> Ins {
        if n == 0 {
            return Self::decode_leaf(t, atoms);
        }
        //            leaf cat catL uni uniL int intL cmp dif difL star plus opt exp sloop mkloop
        let weights: [u32; 16] =
            if cfg.empties { [10, 8, 2, 5, 2, 8, 2, 6, 4, 1, 3, 2, 2, 2, 3, 2] } else { [12, 9, 2, 7, 2, 5, 2, 5, 3, 1, 4, 2, 2, 2, 3, 2] };
        let op = t.weighted(&weights);
        let a = pick_slot(t, n);
        match op {
            0 => Self::decode_leaf(t, atoms),
            1 => Ins::Concat(a, pick_other(t, n, a)),
            2 => Ins::ConcatList(pick_slots(t, n, 4)),
            3 => Ins::Union(a, pick_other(t, n, a)),
            4 => Ins::UnionList(pick_slots(t, n, 4)),
            5 => Ins::Inter(a, pick_other(t, n, a)),
            6 => Ins::InterList(pick_slots(t, n, 3)),
            7 => Ins::Complement(a),
            8 => Ins::Diff(a, pick_other(t, n, a)),
            9 => Ins::DiffList(a, pick_slots(t, n, 3)),
            10 => Ins::Star(a),
            11 => Ins::Plus(a),
            12 => Ins::Opt(a),
            13 => Ins::Exp(a, pick_bound(t, cfg, big)),
            14 => {
                let i = pick_bound(t, cfg, big);
                let j = pick_bound(t, cfg, big);
                // mostly i <= j, sometimes the reversed (empty) form
                if i > j && !t.bool_p(40) {
                    Ins::SmtLoop(a, j, i)
                } else {
                    Ins::SmtLoop(a, i, j)
                }
            }
            _ => {
                let i = pick_bound(t, cfg, big);
                if t.flag() {
                    Ins::MkLoop(a, i, None)
                } else {
                    let j = pick_bound(t, cfg, big);
                    Ins::MkLoop(a, i.min(j), Some(i.max(j)))
                }
            }
        }
    }

    pub fn max_loop_bound(&self) -> u32 {
        self.ins.iter().map(|i| i.max_bound()).max().unwrap_or(0)
    }

    pub fn has(&self, f: impl Fn(&Ins) -> bool) -> bool {
        self.ins.iter().any(f)
    }

    pub fn digest_bytes(&self) -> Vec<u8> {
        format!("{:?}|{:?}", self.atoms.landmarks, self.ins).into_bytes()
    }

    pub fn render(&self) -> String {
        let mut s = format!("landmarks=[{}]", self.atoms.landmarks.iter().map(|&c| show_char(c)).collect::<Vec<_>>().join(","));
        for (k, i) in self.ins.iter().enumerate() {
            s.push_str(&format!("; r{} = {}", k, render_ins(i)));
        }
        s
    }

    // ------------------------------------------------------------------
    // Denotation by reference DFA (R4)
    // ------------------------------------------------------------------

    fn set_of(&self, a: u32, b: u32) -> Vec<usize> {
        self.atoms.atoms_in(a, b)
    }

    pub fn word_atoms(&self, w: &[u32]) -> Vec<usize> {
        w.iter().map(|&c| self.atoms.atom_of(c)).collect()
    }

    /// reference DFA of every slot
    pub fn dfas(&self) -> Result<Vec<Dfa>, TooBig> {
        let k = self.atoms.len();
        let mut out: Vec<Dfa> = Vec::with_capacity(self.ins.len());
        for ins in &self.ins {
            let d = self.dfa_of(ins, &out, k)?;
            out.push(d);
        }
        Ok(out)
    }

    pub fn dfa_of(&self, ins: &Ins, out: &[Dfa], k: usize) -> Result<Dfa, TooBig> {
        use Ins::*;
        let all: Vec<usize> = (0..k).collect();
        Ok(match ins {
            Empty => Dfa::empty(k),
            Full => Dfa::full(k),
            Epsilon => Dfa::epsilon(k),
            SigmaPlus => Dfa::epsilon(k).complement(),
            AllChars => Dfa::letters(k, &all),
            Char(c) => Dfa::letters(k, &self.set_of(*c, *c)),
            Range(a, b) | CharSet(a, b) => Dfa::letters(k, &self.set_of(*a, *b)),
            Str(s) => Dfa::word(k, &self.word_atoms(s)),
            SmtRange(s1, s2) => {
                if s1.len() == 1 && s2.len() == 1 && s1[0] <= s2[0] {
                    Dfa::letters(k, &self.set_of(s1[0], s2[0]))
                } else {
                    Dfa::empty(k)
                }
            }
            Concat(a, b) => out[*a].concat(&out[*b])?,
            ConcatList(v) => {
                let mut r = Dfa::epsilon(k);
                for &x in v {
                    r = r.concat(&out[x])?;
                }
                r
            }
            Union(a, b) => out[*a].union(&out[*b])?,
            UnionList(v) => {
                let mut r = Dfa::empty(k);
                for &x in v {
                    r = r.union(&out[x])?;
                }
                r
            }
            Inter(a, b) => out[*a].inter(&out[*b])?,
            InterList(v) => {
                let mut r = Dfa::full(k);
                for &x in v {
                    r = r.inter(&out[x])?;
                }
                r
            }
            Complement(a) => out[*a].complement(),
            Diff(a, b) => out[*a].diff(&out[*b])?,
            DiffList(a, v) => {
                let mut r = out[*a].clone();
                for &x in v {
                    r = r.diff(&out[x])?;
                }
                r
            }
            Star(a) | Plus(a) | Opt(a) | Exp(a, _) | SmtLoop(a, _, _) | MkLoop(a, _, _) => match ins.loop_bounds() {
                None => Dfa::empty(k),
                Some((lo, hi)) => out[*a].repeat(lo, hi)?,
            },
        })
    }

    // ------------------------------------------------------------------
    // Denotation by DP matcher (R3): member[slot][i][j] for the word w
    // ------------------------------------------------------------------

    /// returns, per slot, the boolean matrix M with M[i][j] <=> w[i..j] in L(slot)
    pub fn dp(&self, w: &[u32]) -> Vec<Mat> {
        let n = w.len();
        let mut out: Vec<Mat> = Vec::with_capacity(self.ins.len());
        for ins in &self.ins {
            let m = dp_of(ins, &out, w, n);
            out.push(m);
        }
        out
    }

    pub fn member(&self, slot: usize, w: &[u32]) -> bool {
        let m = self.dp(w);
        m[slot].get(0, w.len())
    }

    // ------------------------------------------------------------------
    // Execution on the crate
    // ------------------------------------------------------------------

    pub fn build(&self, m: &mut ReManager) -> Vec<RegLan> {
        let mut out: Vec<RegLan> = Vec::with_capacity(self.ins.len());
        for ins in &self.ins {
            let r = build_ins(m, ins, &out);
            out.push(r);
        }
        out
    }

    /// build through the SMT-LIB-named wrappers (thread-local manager)
    pub fn build_wrapped(&self) -> Vec<RegLan> {
        let mut out: Vec<RegLan> = Vec::with_capacity(self.ins.len());
        for ins in &self.ins {
            let r = build_ins_wrapped(ins, &out);
            out.push(r);
        }
        out
    }
}

pub fn render_ins(i: &Ins) -> String {
    use Ins::*;
    let l = |v: &Vec<usize>| v.iter().map(|x| format!("r{}", x)).collect::<Vec<_>>().join(",");
    match i {
        Empty | Full | Epsilon | SigmaPlus | AllChars => i.name().to_string(),
        Char(c) => format!("char({})", show_char(*c)),
        Range(a, b) => format!("range({},{})", show_char(*a), show_char(*b)),
        CharSet(a, b) => format!("char_set({},{})", show_char(*a), show_char(*b)),
        Str(s) => format!("str({})", show_str(s)),
        SmtRange(a, b) => format!("smt_range({},{})", show_str(a), show_str(b)),
        Concat(a, b) => format!("concat(r{},r{})", a, b),
        ConcatList(v) => format!("concat_list([{}])", l(v)),
        Union(a, b) => format!("union(r{},r{})", a, b),
        UnionList(v) => format!("union_list([{}])", l(v)),
        Inter(a, b) => format!("inter(r{},r{})", a, b),
        InterList(v) => format!("inter_list([{}])", l(v)),
        Complement(a) => format!("complement(r{})", a),
        Diff(a, b) => format!("diff(r{},r{})", a, b),
        DiffList(a, v) => format!("diff_list(r{},[{}])", a, l(v)),
        Star(a) => format!("star(r{})", a),
        Plus(a) => format!("plus(r{})", a),
        Opt(a) => format!("opt(r{})", a),
        Exp(a, k) => format!("exp(r{},{})", a, k),
        SmtLoop(a, i, j) => format!("smt_loop(r{},{},{})", a, i, j),
        MkLoop(a, i, None) => format!("mk_loop(r{},[{},inf))", a, i),
        MkLoop(a, i, Some(j)) => format!("mk_loop(r{},[{},{}])", a, i, j),
    }
}

pub fn smt(s: &[u32]) -> SmtString {
    SmtString::from(s)
}

pub fn build_ins(m: &mut ReManager, ins: &Ins, out: &[RegLan]) -> RegLan {
    use Ins::*;
    match ins {
        Empty => m.empty(),
        Full => m.full(),
        Epsilon => m.epsilon(),
        SigmaPlus => m.sigma_plus(),
        AllChars => m.all_chars(),
        Char(c) => m.char(*c),
        Range(a, b) => m.range(*a, *b),
        CharSet(a, b) => m.char_set(aws_smt_strings::character_sets::CharSet::range(*a, *b)),
        Str(s) => m.str(&smt(s)),
        SmtRange(a, b) => m.smt_range(&smt(a), &smt(b)),
        Concat(a, b) => m.concat(out[*a], out[*b]),
        ConcatList(v) => m.concat_list(v.iter().map(|&x| out[x])),
        Union(a, b) => m.union(out[*a], out[*b]),
        UnionList(v) => m.union_list(v.iter().map(|&x| out[x])),
        Inter(a, b) => m.inter(out[*a], out[*b]),
        InterList(v) => m.inter_list(v.iter().map(|&x| out[x])),
        Complement(a) => m.complement(out[*a]),
        Diff(a, b) => m.diff(out[*a], out[*b]),
        DiffList(a, v) => m.diff_list(out[*a], v.iter().map(|&x| out[x])),
        Star(a) => m.star(out[*a]),
        Plus(a) => m.plus(out[*a]),
        Opt(a) => m.opt(out[*a]),
        Exp(a, k) => m.exp(out[*a], *k),
        SmtLoop(a, i, j) => m.smt_loop(out[*a], *i, *j),
        MkLoop(a, i, None) => m.mk_loop(out[*a], LoopRange::infinite(*i)),
        MkLoop(a, i, Some(j)) => m.mk_loop(out[*a], LoopRange::finite(*i, *j)),
    }
}

/// The wrappers expose fewer constructors; the others are expressed with SMT-LIB's own definitions
/// (sigma_plus = re.+ re.allchar, char/range via re.range / str.to_re, exp = re.^ ...).
pub fn build_ins_wrapped(ins: &Ins, out: &[RegLan]) -> RegLan {
    use Ins::*;
    match ins {
        Empty => w::re_none(),
        Full => w::re_all(),
        Epsilon => w::str_to_re(&smt(&[])),
        SigmaPlus => w::re_plus(w::re_allchar()),
        AllChars => w::re_allchar(),
        Char(c) => w::str_to_re(&smt(&[*c])),
        Range(a, b) | CharSet(a, b) => w::re_range(&smt(&[*a]), &smt(&[*b])),
        Str(s) => w::str_to_re(&smt(s)),
        SmtRange(a, b) => w::re_range(&smt(a), &smt(b)),
        Concat(a, b) => w::re_concat(out[*a], out[*b]),
        ConcatList(v) => w::re_concat_list(v.iter().map(|&x| out[x])),
        Union(a, b) => w::re_union(out[*a], out[*b]),
        UnionList(v) => w::re_union_list(v.iter().map(|&x| out[x])),
        Inter(a, b) => w::re_inter(out[*a], out[*b]),
        InterList(v) => w::re_inter_list(v.iter().map(|&x| out[x])),
        Complement(a) => w::re_comp(out[*a]),
        Diff(a, b) => w::re_diff(out[*a], out[*b]),
        DiffList(a, v) => w::re_diff_list(out[*a], v.iter().map(|&x| out[x])),
        Star(a) => w::re_star(out[*a]),
        Plus(a) => w::re_plus(out[*a]),
        Opt(a) => w::re_opt(out[*a]),
        Exp(a, k) => w::re_power(out[*a], *k),
        SmtLoop(a, i, j) => w::re_loop(out[*a], *i, *j),
        // unbounded loop through the wrappers: r^i . r*
        MkLoop(a, i, None) => w::re_concat(w::re_power(out[*a], *i), w::re_star(out[*a])),
        MkLoop(a, i, Some(j)) => w::re_loop(out[*a], *i, *j),
    }
}

// ----------------------------------------------------------------------
// boolean matrices for the DP matcher
// ----------------------------------------------------------------------

#[derive(Clone, Debug, PartialEq, Eq)]
pub struct Mat {
    n: usize,
    bits: Vec<bool>,
}

impl Mat {
    pub fn zero(n: usize) -> Mat {
        Mat { n, bits: vec![false; (n + 1) * (n + 1)] }
    }
    pub fn ident(n: usize) -> Mat {
        let mut m = Mat::zero(n);
        for i in 0..=n {
            m.set(i, i, true);
        }
        m
    }
    #[inline]
    pub fn get(&self, i: usize, j: usize) -> bool {
        self.bits[i * (self.n + 1) + j]
    }
    #[inline]
    pub fn set(&mut self, i: usize, j: usize, v: bool) {
        self.bits[i * (self.n + 1) + j] = v;
    }
    pub fn mul(&self, o: &Mat) -> Mat {
        let n = self.n;
        let mut r = Mat::zero(n);
        for i in 0..=n {
            for k in i..=n {
                if self.get(i, k) {
                    for j in k..=n {
                        if o.get(k, j) {
                            r.set(i, j, true);
                        }
                    }
                }
            }
        }
        r
    }
    pub fn or(&self, o: &Mat) -> Mat {
        Mat { n: self.n, bits: self.bits.iter().zip(&o.bits).map(|(a, b)| *a || *b).collect() }
    }
    pub fn and(&self, o: &Mat) -> Mat {
        Mat { n: self.n, bits: self.bits.iter().zip(&o.bits).map(|(a, b)| *a && *b).collect() }
    }
    pub fn andnot(&self, o: &Mat) -> Mat {
        Mat { n: self.n, bits: self.bits.iter().zip(&o.bits).map(|(a, b)| *a && !*b).collect() }
    }
    /// complement restricted to i <= j
    pub fn not(&self) -> Mat {
        let n = self.n;
        let mut r = Mat::zero(n);
        for i in 0..=n {
            for j in i..=n {
                r.set(i, j, !self.get(i, j));
            }
        }
        r
    }
    pub fn all_upper(n: usize) -> Mat {
        Mat::zero(n).not()
    }
}

/// exact-count matrices: words of w[i..j] in A^k for lo <= k <= hi
fn dp_repeat(a: &Mat, n: usize, lo: u32, hi: Option<u32>) -> Mat {
    // pow(k) for k <= n is computed by repeated multiplication; for k > n a decomposition of a
    // word of length <= n into k factors has an empty factor, so pow(k) = pow(n) if A has the
    // empty word and is empty otherwise (restricted to sub-words of w).
    let eps = a.get(0, 0); // A contains the empty word (same answer for every i)
    let mut pows: Vec<Mat> = Vec::with_capacity(n + 1);
    pows.push(Mat::ident(n));
    for k in 1..=n {
        let p = pows[k - 1].mul(a);
        pows.push(p);
    }
    let pow = |k: u64| -> Mat {
        if (k as usize) <= n {
            pows[k as usize].clone()
        } else if eps {
            pows[n].clone()
        } else {
            Mat::zero(n)
        }
    };
    let lo = lo as u64;
    let top: u64 = match hi {
        Some(h) => (h as u64).min(lo.max(n as u64 + 1)),
        None => lo.max(n as u64 + 1),
    };
    let mut r = Mat::zero(n);
    let mut k = lo;
    while k <= top {
        r = r.or(&pow(k));
        k += 1;
    }
    r
}

fn dp_of(ins: &Ins, out: &[Mat], w: &[u32], n: usize) -> Mat {
    use Ins::*;
    let single = |pred: &dyn Fn(u32) -> bool| -> Mat {
        let mut m = Mat::zero(n);
        for i in 0..n {
            if pred(w[i]) {
                m.set(i, i + 1, true);
            }
        }
        m
    };
    match ins {
        Empty => Mat::zero(n),
        Full => Mat::all_upper(n),
        Epsilon => Mat::ident(n),
        SigmaPlus => Mat::all_upper(n).andnot(&Mat::ident(n)),
        AllChars => single(&|_| true),
        Char(c) => single(&|x| x == *c),
        Range(a, b) | CharSet(a, b) => single(&|x| *a <= x && x <= *b),
        Str(s) => {
            let mut m = Mat::zero(n);
            let l = s.len();
            for i in 0..=n {
                if i + l <= n && w[i..i + l] == s[..] {
                    m.set(i, i + l, true);
                }
            }
            m
        }
        SmtRange(s1, s2) => {
            if s1.len() == 1 && s2.len() == 1 && s1[0] <= s2[0] {
                let (a, b) = (s1[0], s2[0]);
                single(&|x| a <= x && x <= b)
            } else {
                Mat::zero(n)
            }
        }
        Concat(a, b) => out[*a].mul(&out[*b]),
        ConcatList(v) => {
            let mut r = Mat::ident(n);
            for &x in v {
                r = r.mul(&out[x]);
            }
            r
        }
        Union(a, b) => out[*a].or(&out[*b]),
        UnionList(v) => {
            let mut r = Mat::zero(n);
            for &x in v {
                r = r.or(&out[x]);
            }
            r
        }
        Inter(a, b) => out[*a].and(&out[*b]),
        InterList(v) => {
            let mut r = Mat::all_upper(n);
            for &x in v {
                r = r.and(&out[x]);
            }
            r
        }
        Complement(a) => out[*a].not(),
        Diff(a, b) => out[*a].andnot(&out[*b]),
        DiffList(a, v) => {
            let mut r = out[*a].clone();
            for &x in v {
                r = r.andnot(&out[x]);
            }
            r
        }
        Star(a) | Plus(a) | Opt(a) | Exp(a, _) | SmtLoop(a, _, _) | MkLoop(a, _, _) => match ins.loop_bounds() {
            None => Mat::zero(n),
            Some((lo, hi)) => dp_repeat(&out[*a], n, lo, hi),
        },
    }
}

#[allow(dead_code)]
pub fn charset(a: u32, b: u32) -> CharSet {
    CharSet::range(a, b.min(MAX))
}
