//! vcheck library: reference models, generators and property checks for aws-smt-strings
//! (see /verif/DESIGN.md). Used by the `vcheck` binary and by the libFuzzer target in fuzz/.

pub mod atoms;
pub mod bisim;
pub mod ivl;
pub mod prog;
pub mod rdfa;
pub mod runner;
pub mod rx;
pub mod smtref;
pub mod spec;
pub mod tape;

pub mod p_auto;
pub mod p_c01;
pub mod p_c02;
pub mod p_c03;
pub mod p_c05;
pub mod p_c06;
pub mod p_c07;
pub mod p_c08;
pub mod p_c09;
pub mod p_c10;
pub mod p_c11;
pub mod p_c12;
pub mod p_c15;
pub mod p_c16;
pub mod p_c17;
pub mod p_c20;

use runner::{Cx, EnumSink, Known, PropFn, PtArgs, Stats};

pub struct Prop {
    pub id: &'static str,
    pub run: PropFn,
    pub tape_len: usize,
    pub enumerate: Option<fn(thorough: bool, part: usize, parts: usize, sink: &mut EnumSink)>,
}

pub fn registry() -> Vec<Prop> {
    vec![
        Prop { id: "C01", run: p_c01::run, tape_len: 240, enumerate: None },
        Prop { id: "C02", run: p_c02::run, tape_len: 150, enumerate: None },
        Prop { id: "C03", run: p_c03::run, tape_len: 150, enumerate: None },
        Prop { id: "C04", run: p_auto::run_c04, tape_len: 160, enumerate: Some(p_auto::enumerate_c04) },
        Prop { id: "C13", run: p_auto::run_c13, tape_len: 160, enumerate: Some(p_auto::enumerate_c13) },
        Prop { id: "C14", run: p_auto::run_c14, tape_len: 160, enumerate: Some(p_auto::enumerate_c14) },
        Prop { id: "C05", run: p_c05::run_c05, tape_len: 120, enumerate: None },
        Prop { id: "C18", run: p_c05::run_c18, tape_len: 120, enumerate: None },
        Prop { id: "C19", run: p_c05::run_c19, tape_len: 120, enumerate: Some(p_c05::enumerate_c19) },
        Prop { id: "C06", run: p_c06::run, tape_len: 64, enumerate: Some(p_c06::enumerate) },
        Prop { id: "C07", run: p_c07::run, tape_len: 200, enumerate: Some(p_c07::enumerate) },
        Prop { id: "C08", run: p_c08::run, tape_len: 96, enumerate: Some(p_c08::enumerate) },
        Prop { id: "C09", run: p_c09::run, tape_len: 96, enumerate: Some(p_c09::enumerate) },
        Prop { id: "C16", run: p_c16::run, tape_len: 160, enumerate: None },
        Prop { id: "C17", run: p_c17::run, tape_len: 128, enumerate: None },
        Prop { id: "C10", run: p_c10::run, tape_len: 120, enumerate: None },
        Prop { id: "C11", run: p_c11::run, tape_len: 96, enumerate: Some(|th, part, parts, sink| p_c11::enumerate(if th { 5 } else { 4 }, part, parts, sink)) },
        Prop { id: "C12", run: p_c12::run, tape_len: 128, enumerate: Some(|th, part, parts, sink| if th { p_c12::enumerate(4, 2, part, parts, sink) } else { p_c12::enumerate(3, 2, part, parts, sink) }) },
        Prop { id: "C15", run: p_c15::run, tape_len: 64, enumerate: Some(|th, part, parts, sink| p_c15::enumerate(if th { 40 } else { 24 }, part, parts, sink)) },
        Prop {
        id: "C20",
        run: p_c20::run,
        tape_len: 64,
        enumerate: Some(|th, part, parts, sink| p_c20::enumerate(if th { 8 } else { 5 }, part, parts, sink)),
    }]
    .into_iter()
    .collect()
}

