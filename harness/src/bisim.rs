//! R5: exact comparison engines between the crate and the reference DFA.

use crate::atoms::{Atoms, MAX};
use crate::rdfa::Dfa;
use aws_smt_strings::automata::{Automaton, State};
use aws_smt_strings::regular_expressions::{ReManager, RegLan};
use std::collections::{BTreeSet, HashMap, HashSet, VecDeque};

pub fn ptr(r: RegLan) -> usize {
    r as *const _ as usize
}

/// characters to probe for a crate term: atom representatives plus the break points of the
/// term's own derivative classes (both ends of every class and the characters just outside)
pub fn probe_chars(atoms: &Atoms, t: RegLan) -> Vec<u32> {
    let mut v: BTreeSet<u32> = atoms.all_reps().into_iter().collect();
    for r in t.char_ranges() {
        for c in range_probe_points(r) {
            v.insert(c);
        }
    }
    v.into_iter().collect()
}

/// The closed interval denoted by a CharSet, recovered through `contains`, `size` and `pick` only
/// (the fields are private). `pick` is documented to return *some* member, not the first one, so the
/// start is located by a binary search on `contains` below the picked member.
pub fn bounds_of(r: &aws_smt_strings::character_sets::CharSet) -> (u32, u32) {
    let p = r.pick().min(MAX);
    let n = r.size().max(1);
    let mut lo_bound = p.saturating_sub(n - 1); // the start cannot be lower than this
    let mut hi_bound = p; // contains(p) holds
    while lo_bound < hi_bound {
        let mid = lo_bound + (hi_bound - lo_bound) / 2;
        if r.contains(mid) {
            hi_bound = mid;
        } else {
            lo_bound = mid + 1;
        }
    }
    let lo = hi_bound;
    (lo, lo.saturating_add(n - 1).min(MAX))
}

/// end points of a CharSet and the characters just outside. CharSet only exposes `pick` and
/// `size`; any character <= MAX is a legitimate probe, so the points are clamped rather than
/// trusted (a crate change to `pick` must not break the harness).
pub fn range_probe_points(r: &aws_smt_strings::character_sets::CharSet) -> Vec<u32> {
    let p = r.pick().min(MAX);
    let n = r.size().max(1);
    let (lo, hi) = bounds_of(r);
    let mut v = vec![p, lo, hi, p.saturating_add(n - 1).min(MAX), p.saturating_sub(n - 1)];
    for x in v.clone() {
        if x > 0 {
            v.push(x - 1);
        }
        if x < MAX {
            v.push(x + 1);
        }
    }
    v
}

#[derive(Debug)]
pub enum BisimResult {
    /// languages agree on all strings over the probed characters; (pairs explored, derivative calls)
    Equal(usize, usize),
    /// a distinguishing string and what the crate / the reference say about it
    Differ { word: Vec<u32>, crate_says: bool, reference_says: bool },
    /// exploration cap reached
    Capped,
}

/// Explore pairs (reference state, crate term) from (q0, e) along `char_derivative`; require
/// `nullable == final` everywhere. Exact for all strings over the probed characters.
pub fn bisim_term(m: &mut ReManager, atoms: &Atoms, dfa: &Dfa, q0: u32, e: RegLan, cap: usize) -> BisimResult {
    bisim_multi(m, atoms, dfa, &[(q0, e, vec![])], cap)
}

/// same, from several roots at once; each root carries the word that led to it (for reporting)
pub fn bisim_multi(m: &mut ReManager, atoms: &Atoms, dfa: &Dfa, roots: &[(u32, RegLan, Vec<u32>)], cap: usize) -> BisimResult {
    let mut seen: HashSet<(u32, usize)> = HashSet::new();
    let mut pred: HashMap<(u32, usize), ((u32, usize), u32)> = HashMap::new();
    let mut root_word: HashMap<(u32, usize), Vec<u32>> = HashMap::new();
    let mut queue: VecDeque<(u32, RegLan)> = VecDeque::new();
    let mut calls = 0usize;
    let word_to = |pred: &HashMap<(u32, usize), ((u32, usize), u32)>, root_word: &HashMap<(u32, usize), Vec<u32>>, mut k: (u32, usize)| -> Vec<u32> {
        let mut w = Vec::new();
        while let Some(&(p, c)) = pred.get(&k) {
            w.push(c);
            k = p;
        }
        w.reverse();
        let mut full = root_word.get(&k).cloned().unwrap_or_default();
        full.extend(w);
        full
    };
    for (q0, e, w) in roots {
        let key = (*q0, ptr(e));
        if e.nullable != dfa.is_final(*q0) {
            return BisimResult::Differ { word: w.clone(), crate_says: e.nullable, reference_says: dfa.is_final(*q0) };
        }
        if seen.insert(key) {
            root_word.insert(key, w.clone());
            queue.push_back((*q0, e));
        }
    }
    while let Some((q, t)) = queue.pop_front() {
        for c in probe_chars(atoms, t) {
            let q2 = dfa.step(q, atoms.atom_of(c));
            let t2 = m.char_derivative(t, c);
            calls += 1;
            let key = (q2, ptr(t2));
            if seen.contains(&key) {
                continue;
            }
            pred.insert(key, ((q, ptr(t)), c));
            if t2.nullable != dfa.is_final(q2) {
                return BisimResult::Differ { word: word_to(&pred, &root_word, key), crate_says: t2.nullable, reference_says: dfa.is_final(q2) };
            }
            if seen.len() >= cap {
                return BisimResult::Capped;
            }
            seen.insert(key);
            queue.push_back((q2, t2));
        }
    }
    BisimResult::Equal(seen.len(), calls)
}

/// the reachable pairs (reference state, crate term) from (q0, e), in BFS order, at most `cap`
pub fn reachable_pairs(m: &mut ReManager, atoms: &Atoms, dfa: &Dfa, q0: u32, e: RegLan, cap: usize) -> Vec<(u32, RegLan)> {
    let mut seen: HashSet<(u32, usize)> = HashSet::new();
    let mut out: Vec<(u32, RegLan)> = Vec::new();
    let mut queue: VecDeque<(u32, RegLan)> = VecDeque::new();
    seen.insert((q0, ptr(e)));
    queue.push_back((q0, e));
    out.push((q0, e));
    while let Some((q, t)) = queue.pop_front() {
        for c in probe_chars(atoms, t) {
            let q2 = dfa.step(q, atoms.atom_of(c));
            let t2 = m.char_derivative(t, c);
            if out.len() < cap && seen.insert((q2, ptr(t2))) {
                out.push((q2, t2));
                queue.push_back((q2, t2));
            }
        }
    }
    out
}

/// number of distinct iterated derivatives of e, computed with the harness's own BFS over
/// `char_derivative` (class boundary characters); None if more than cap
pub fn deriv_closure(m: &mut ReManager, atoms: &Atoms, e: RegLan, cap: usize) -> Option<Vec<RegLan>> {
    let mut seen: HashSet<usize> = HashSet::new();
    let mut order: Vec<RegLan> = Vec::new();
    let mut queue: VecDeque<RegLan> = VecDeque::new();
    seen.insert(ptr(e));
    queue.push_back(e);
    order.push(e);
    while let Some(t) = queue.pop_front() {
        for c in probe_chars(atoms, t) {
            let t2 = m.char_derivative(t, c);
            if seen.insert(ptr(t2)) {
                if seen.len() > cap {
                    return None;
                }
                order.push(t2);
                queue.push_back(t2);
            }
        }
    }
    Some(order)
}

/// break points of one automaton state: both ends of every range and the characters just outside
pub fn state_probe_chars(s: &State, extra: &[u32]) -> Vec<u32> {
    let mut v: BTreeSet<u32> = extra.iter().copied().collect();
    v.insert(0);
    v.insert(MAX);
    for r in s.char_ranges() {
        for c in range_probe_points(r) {
            v.insert(c);
        }
    }
    v.into_iter().collect()
}

/// all break points of an automaton (common refinement of all states' partitions)
pub fn automaton_probe_chars(a: &Automaton, extra: &[u32]) -> Vec<u32> {
    let mut v: BTreeSet<u32> = extra.iter().copied().collect();
    v.insert(0);
    v.insert(MAX);
    for s in a.states() {
        for c in state_probe_chars(s, &[]) {
            v.insert(c);
        }
    }
    v.into_iter().collect()
}

#[derive(Debug)]
pub enum ProductResult {
    Equal(usize),
    Differ { word: Vec<u32>, automaton_says: bool, reference_says: bool },
    /// `next` panicked (no successor for a character)
    Stuck { word: Vec<u32>, msg: String },
}

/// product of reference DFA and crate automaton from (q0, start); exact language equality over
/// the common refinement of the atoms and every state's ranges
pub fn product_automaton(atoms: &Atoms, dfa: &Dfa, q0: u32, a: &Automaton, start: &State) -> ProductResult {
    let mut seen: HashSet<(u32, usize)> = HashSet::new();
    let mut pred: HashMap<(u32, usize), ((u32, usize), u32)> = HashMap::new();
    let mut queue: VecDeque<(u32, usize)> = VecDeque::new();
    let reps = atoms.all_reps();
    let word_to = |pred: &HashMap<(u32, usize), ((u32, usize), u32)>, mut k: (u32, usize)| -> Vec<u32> {
        let mut w = Vec::new();
        while let Some(&(p, c)) = pred.get(&k) {
            w.push(c);
            k = p;
        }
        w.reverse();
        w
    };
    if start.is_final() != dfa.is_final(q0) {
        return ProductResult::Differ { word: vec![], automaton_says: start.is_final(), reference_says: dfa.is_final(q0) };
    }
    seen.insert((q0, start.id()));
    queue.push_back((q0, start.id()));
    while let Some((q, sid)) = queue.pop_front() {
        let s = a.state(sid);
        for c in state_probe_chars(s, &reps) {
            let q2 = dfa.step(q, atoms.atom_of(c));
            let r = std::panic::catch_unwind(std::panic::AssertUnwindSafe(|| a.next(s, c).id()));
            let s2 = match r {
                Ok(x) => x,
                Err(e) => {
                    let mut w = word_to(&pred, (q, sid));
                    w.push(c);
                    return ProductResult::Stuck { word: w, msg: crate::runner::panic_msg(&e) };
                }
            };
            let key = (q2, s2);
            if seen.contains(&key) {
                continue;
            }
            pred.insert(key, ((q, sid), c));
            if a.state(s2).is_final() != dfa.is_final(q2) {
                return ProductResult::Differ {
                    word: word_to(&pred, key),
                    automaton_says: a.state(s2).is_final(),
                    reference_says: dfa.is_final(q2),
                };
            }
            seen.insert(key);
            queue.push_back(key);
        }
    }
    ProductResult::Equal(seen.len())
}

/// Moore partition refinement on a crate automaton, through `next` only, over `alphabet`.
/// Returns the class of every state (classes numbered from 0).
pub fn moore_classes(a: &Automaton, alphabet: &[u32]) -> Vec<usize> {
    let n = a.num_states();
    let mut class: Vec<usize> = (0..n).map(|i| a.state(i).is_final() as usize).collect();
    let mut count = {
        let s: BTreeSet<usize> = class.iter().copied().collect();
        s.len()
    };
    // successor table
    let succ: Vec<Vec<usize>> = (0..n).map(|i| alphabet.iter().map(|&c| a.next(a.state(i), c).id()).collect()).collect();
    loop {
        let mut sigs: std::collections::BTreeMap<Vec<usize>, usize> = std::collections::BTreeMap::new();
        let mut newc = vec![0usize; n];
        for i in 0..n {
            let mut sig = Vec::with_capacity(alphabet.len() + 1);
            sig.push(class[i]);
            for &t in &succ[i] {
                sig.push(class[t]);
            }
            let next_id = sigs.len();
            newc[i] = *sigs.entry(sig).or_insert(next_id);
        }
        let c2 = sigs.len();
        class = newc;
        if c2 == count {
            break;
        }
        count = c2;
    }
    class
}

/// states reachable from the initial state, by BFS over `next` on the alphabet
pub fn reachable_states(a: &Automaton, alphabet: &[u32]) -> Vec<usize> {
    let mut seen = vec![false; a.num_states()];
    let mut order = Vec::new();
    let mut q = VecDeque::new();
    let i0 = a.initial_state().id();
    seen[i0] = true;
    q.push_back(i0);
    while let Some(i) = q.pop_front() {
        order.push(i);
        for &c in alphabet {
            let t = a.next(a.state(i), c).id();
            if !seen[t] {
                seen[t] = true;
                q.push_back(t);
            }
        }
    }
    order
}
