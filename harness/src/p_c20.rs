//! C20 — CharSet operations are exact interval algebra.
//! Oracle R6: brute force on segment masks.

use crate::atoms::{show_char, MAX};
use crate::ivl::Universe;
use crate::runner::{Cx, EnumSink, Outcome};
use crate::tape::{fnv, Tape};
use aws_smt_strings::character_sets::CharSet;
use std::cmp::Ordering;


fn show_iv(iv: (u32, u32)) -> String {
    format!("[{},{}]", show_char(iv.0), show_char(iv.1))
}

/// set (mask) denoted by a crate CharSet, observed through `contains` on every probe character;
/// None if `contains` is not uniform on a segment
fn observe(u: &Universe, s: &CharSet) -> Result<u128, String> {
    let mut m = 0u128;
    for (i, &(x, y)) in u.segs.iter().enumerate() {
        let mid = x + (y - x) / 2;
        let a = s.contains(x);
        let b = s.contains(y);
        let c = s.contains(mid);
        if a != b || a != c {
            return Err(format!("contains not uniform on segment [{:#x},{:#x}]", x, y));
        }
        if a {
            m |= 1 << i;
        }
    }
    Ok(m)
}

/// check every unary fact about one interval
fn check_unary(u: &Universe, iv: (u32, u32), o: &mut Outcome) {
    let s = CharSet::range(iv.0, iv.1);
    let m = u.mask(iv.0, iv.1);
    let probes = u.probe_chars();
    // contains
    for &c in &probes {
        o.evals += 1;
        let exp = m & (1 << u.seg_of(c)) != 0;
        if s.contains(c) != exp {
            o.fail("C20/contains", format!("{}.contains({}) = {}, expected {}", show_iv(iv), show_char(c), !exp, exp));
        }
        // is_before(x): every element < x ; is_after(x): every element > x
        let before = u.max_char(m).unwrap() < c;
        let after = c < u.min_char(m).unwrap();
        if s.is_before(c) != before {
            o.fail("C20/is_before", format!("{}.is_before({}) = {}, expected {}", show_iv(iv), show_char(c), !before, before));
        }
        if s.is_after(c) != after {
            o.fail("C20/is_after", format!("{}.is_after({}) = {}, expected {}", show_iv(iv), show_char(c), !after, after));
        }
    }
    o.evals += 4;
    let card = u.card(m);
    if s.size() as u64 != card {
        o.fail("C20/size", format!("{}.size() = {}, expected {}", show_iv(iv), s.size(), card));
    }
    if s.is_singleton() != (card == 1) {
        o.fail("C20/is_singleton", format!("{}.is_singleton() = {}", show_iv(iv), s.is_singleton()));
    }
    if s.is_alphabet() != (m == u.full_mask()) {
        o.fail("C20/is_alphabet", format!("{}.is_alphabet() = {}", show_iv(iv), s.is_alphabet()));
    }
    let p = s.pick();
    if p > MAX || m & (1 << u.seg_of(p)) == 0 {
        o.fail("C20/pick", format!("{}.pick() = {:#x} is not a member", show_iv(iv), p));
    }
    if iv.0 == iv.1 {
        let t = CharSet::singleton(iv.0);
        if t != s {
            o.fail("C20/singleton", format!("singleton({}) != range of the same point", show_char(iv.0)));
        }
    }
    if iv == (0, MAX) && CharSet::all_chars() != s {
        o.fail("C20/all_chars", "all_chars() != range(0, MAX)".into());
    }
}

fn check_pair(u: &Universe, a: (u32, u32), b: (u32, u32), o: &mut Outcome) {
    let sa = CharSet::range(a.0, a.1);
    let sb = CharSet::range(b.0, b.1);
    let ma = u.mask(a.0, a.1);
    let mb = u.mask(b.0, b.1);
    o.evals += 5;
    // covers
    let exp_cov = mb & !ma == 0;
    if sa.covers(&sb) != exp_cov {
        o.fail("C20/covers", format!("{}.covers({}) = {}, expected {}", show_iv(a), show_iv(b), !exp_cov, exp_cov));
    }
    // inter
    let mi = ma & mb;
    match sa.inter(&sb) {
        None => {
            if mi != 0 {
                o.fail("C20/inter", format!("{}.inter({}) = None but the sets intersect", show_iv(a), show_iv(b)));
            }
        }
        Some(r) => match observe(u, &r) {
            Err(e) => o.fail("C20/inter", format!("{}.inter({}): {}", show_iv(a), show_iv(b), e)),
            Ok(mr) => {
                if mr != mi || mi == 0 || r.size() as u64 != u.card(mi) {
                    o.fail("C20/inter", format!("{}.inter({}) = Some({}) is not the intersection", show_iv(a), show_iv(b), r));
                }
            }
        },
    }
    // union: Some iff the union is an interval
    let mu = ma | mb;
    let is_iv = u.is_interval(mu);
    match sa.union(&sb) {
        None => {
            if is_iv {
                o.fail("C20/union", format!("{}.union({}) = None but the union is an interval", show_iv(a), show_iv(b)));
            }
        }
        Some(r) => match observe(u, &r) {
            Err(e) => o.fail("C20/union", format!("{}.union({}): {}", show_iv(a), show_iv(b), e)),
            Ok(mr) => {
                if !is_iv || mr != mu || r.size() as u64 != u.card(mu) {
                    o.fail("C20/union", format!("{}.union({}) = Some({}) is not the union / union is not an interval", show_iv(a), show_iv(b), r));
                }
            }
        },
    }
    // partial order and equality
    let eq = ma == mb;
    if (sa == sb) != eq {
        o.fail("C20/eq", format!("{} == {} gives {}", show_iv(a), show_iv(b), sa == sb));
    }
    let exp = if eq {
        Some(Ordering::Equal)
    } else if u.max_char(ma).unwrap() < u.min_char(mb).unwrap() {
        Some(Ordering::Less)
    } else if u.min_char(ma).unwrap() > u.max_char(mb).unwrap() {
        Some(Ordering::Greater)
    } else {
        None
    };
    // the comparison operators must tell the same story as partial_cmp
    let (lt, le, gt, ge) = (sa < sb, sa <= sb, sa > sb, sa >= sb);
    let exp_ops = (exp == Some(Ordering::Less), matches!(exp, Some(Ordering::Less) | Some(Ordering::Equal)), exp == Some(Ordering::Greater), matches!(exp, Some(Ordering::Greater) | Some(Ordering::Equal)));
    if (lt, le, gt, ge) != exp_ops {
        o.fail("C20/comparison-operators", format!("{} vs {}: (<, <=, >, >=) = {:?}, expected {:?}", show_iv(a), show_iv(b), (lt, le, gt, ge), exp_ops));
    }
    if sa.partial_cmp(&sb) != exp {
        o.fail("C20/partial_cmp", format!("{}.partial_cmp({}) = {:?}, expected {:?}", show_iv(a), show_iv(b), sa.partial_cmp(&sb), exp));
    }
}

fn check_list(u: &Universe, l: &[(u32, u32)], o: &mut Outcome) {
    o.evals += 1;
    let sets: Vec<CharSet> = l.iter().map(|&(a, b)| CharSet::range(a, b)).collect();
    let mut m = u.full_mask();
    for &(a, b) in l {
        m &= u.mask(a, b);
    }
    let shown = || l.iter().map(|&x| show_iv(x)).collect::<Vec<_>>().join(",");
    match CharSet::inter_list(&sets) {
        None => {
            if m != 0 {
                o.fail("C20/inter_list", format!("inter_list([{}]) = None but the intersection is not empty", shown()));
            }
        }
        Some(r) => match observe(u, &r) {
            Err(e) => o.fail("C20/inter_list", format!("inter_list([{}]): {}", shown(), e)),
            Ok(mr) => {
                if m == 0 || mr != m {
                    o.fail("C20/inter_list", format!("inter_list([{}]) = Some({}) is wrong", shown(), r));
                }
            }
        },
    }
}

fn nontrivial_pair(a: (u32, u32), b: (u32, u32)) -> bool {
    let adjacent = (a.1 < MAX && a.1 + 1 == b.0) || (b.1 < MAX && b.1 + 1 == a.0);
    let nested = (a.0 <= b.0 && b.1 <= a.1) || (b.0 <= a.0 && a.1 <= b.1);
    let touch = a.0 == 0 || b.0 == 0 || a.1 == MAX || b.1 == MAX;
    adjacent || nested || touch
}

/// proptest / fuzz case: a list of up to 6 arbitrary intervals; all unary, pair and list checks
pub fn run(tape: &[u8], cx: &Cx) -> Outcome {
    let mut t = Tape::new(tape);
    let n = 1 + t.choose(6);
    let mut l: Vec<(u32, u32)> = Vec::new();
    // ends of the alphabet, and the seams of the Unicode code space inside it (surrogate block, BMP end)
    let edge = [0u32, 1, 2, 0x61, 0x62, 0x63, 0x7F, 0x80, 0xD7FF, 0xD800, 0xDBFF, 0xDC00, 0xDFFF, 0xE000, 0xFFFD, 0xFFFF, 0x10000, MAX - 2, MAX - 1, MAX];
    let pick = |t: &mut Tape, l: &Vec<(u32, u32)>| -> u32 {
        match t.weighted(&[3, 3, 2, 2]) {
            0 => t.pick(&edge),
            1 => t.u32_in(0, MAX),
            2 if !l.is_empty() => {
                // relative to an earlier interval: its ends and their neighbours
                let (a, b) = l[t.choose(l.len())];
                let c = [a, b, a.saturating_sub(1), (b + 1).min(MAX), (a + 1).min(MAX), b.saturating_sub(1)];
                t.pick(&c)
            }
            _ => t.u32_in(0, 300),
        }
    };
    for _ in 0..n {
        let x = pick(&mut t, &l);
        let y = pick(&mut t, &l);
        l.push((x.min(y), x.max(y)));
    }
    let u = Universe::from_intervals(&l);
    let mut o = Outcome::default();
    o.digest = fnv(format!("{:?}", l).as_bytes());
    if cx.render {
        o.render = format!("intervals {}", l.iter().map(|&x| show_iv(x)).collect::<Vec<_>>().join(" "));
    }
    for &a in &l {
        check_unary(&u, a, &mut o);
    }
    for &a in &l {
        for &b in &l {
            check_pair(&u, a, b, &mut o);
            if nontrivial_pair(a, b) && a != b {
                o.nontrivial = true;
            }
        }
    }
    for k in 0..=l.len() {
        check_list(&u, &l[..k], &mut o);
    }
    if l.len() >= 3 {
        o.tag("list>=3");
    }
    if l.iter().any(|&(a, b)| a == 0 || b == MAX) {
        o.tag("touches-0-or-MAX");
    }
    o
}

/// exhaustive small scope: all intervals on the universe with parameter n; all ordered pairs; all
/// lists of length <= 3 (part `part` of `parts` of the outer loop)
pub fn enumerate(n: u32, part: usize, parts: usize, sink: &mut EnumSink) {
    let u = Universe::small_scope(n);
    let ivs = u.all_intervals();
    for (idx, &a) in ivs.iter().enumerate() {
        if idx % parts != part {
            continue;
        }
        let mut o = Outcome::default();
        check_unary(&u, a, &mut o);
        check_list(&u, &[a], &mut o);
        check_list(&u, &[], &mut o);
        sink.case(&o, false, || format!("interval {}", show_iv(a)));
        for &b in &ivs {
            let mut o = Outcome::default();
            check_pair(&u, a, b, &mut o);
            sink.case(&o, nontrivial_pair(a, b) && a != b, || format!("pair {} {}", show_iv(a), show_iv(b)));
            for &c in &ivs {
                let mut o = Outcome::default();
                check_list(&u, &[a, b, c], &mut o);
                sink.case(&o, false, || format!("list {} {} {}", show_iv(a), show_iv(b), show_iv(c)));
            }
        }
        if sink.failed() {
            return;
        }
    }
    // second universe: the seams of the code space (every interval and ordered pair)
    {
        let pts = [0u32, 1, 0x7F, 0x80, 0xD7FF, 0xD800, 0xDBFF, 0xDC00, 0xDFFF, 0xE000, 0xFFFD, 0xFFFF, 0x10000, MAX - 1, MAX];
        let singles: Vec<(u32, u32)> = pts.iter().map(|&c| (c, c)).collect();
        let u2 = Universe::from_intervals(&singles);
        let ivs2 = u2.all_intervals();
        for (idx, &a) in ivs2.iter().enumerate() {
            if idx % parts != part {
                continue;
            }
            let mut o = Outcome::default();
            check_unary(&u2, a, &mut o);
            sink.case(&o, false, || format!("interval {}", show_iv(a)));
            for &b in &ivs2 {
                let mut o = Outcome::default();
                check_pair(&u2, a, b, &mut o);
                sink.case(&o, nontrivial_pair(a, b) && a != b, || format!("pair {} {}", show_iv(a), show_iv(b)));
            }
            if sink.failed() {
                return;
            }
        }
        if part == 0 {
            sink.stats.exhaustive_spaces.push(format!("all {} intervals whose end points are among 0, 1, 0x7f, 0x80, 0xd7ff, 0xd800, 0xdbff, 0xdc00, 0xdfff, 0xe000, 0xfffd, 0xffff, 0x10000, MAX-1, MAX or their neighbours: every interval and ordered pair", ivs2.len()));
        }
    }
    // wide lists (the list argument has no documented length limit): nested intervals shrinking to a
    // point, with and without a final disjoint element; judged by max of starts / min of ends
    if part == parts - 1 {
        for &len in &[1000usize, 60_000, 1_000_000] {
            for disjoint_tail in [false, true] {
                let mut l: Vec<(u32, u32)> = (0..len).map(|k| ((k % 90_000) as u32, MAX - (k % 70_000) as u32)).collect();
                if disjoint_tail {
                    l.push((0, 5));
                }
                let lo = l.iter().map(|x| x.0).max().unwrap();
                let hi = l.iter().map(|x| x.1).min().unwrap();
                let sets: Vec<CharSet> = l.iter().map(|&(a, b)| CharSet::range(a, b)).collect();
                let got = crate::runner::on_user_stack(|| CharSet::inter_list(&sets).map(|r| crate::bisim::bounds_of(&r)));
                let exp = if lo <= hi { Some((lo, hi)) } else { None };
                let mut o = Outcome::default();
                o.evals += 1;
                if got != exp {
                    o.fail("C20/inter_list", format!("inter_list of {} nested intervals{} = {:?}, expected {:?}", len, if disjoint_tail { " and one disjoint from their intersection" } else { "" }, got, exp));
                }
                sink.case(&o, true, || format!("inter_list of {} intervals", l.len()));
            }
        }
        sink.stats.exhaustive_spaces.push("inter_list on lists of 1 000, 60 000 and 1 000 000 nested intervals, on an 8 MiB stack (with / without an element disjoint from the rest)".to_string());
    }
    if part == 0 {
        sink.stats.exhaustive_spaces.push(format!(
            "all {} intervals on the universe [0,{n}) u middle u ({:#x},MAX]: every interval, ordered pair and list of length <= 3",
            ivs.len(),
            MAX - n
        ));
        sink.stats.samples.push(format!("[enum] pair {} {}", show_iv(ivs[1]), show_iv(ivs[ivs.len() / 2])));
    }
}
