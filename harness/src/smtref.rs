//! R7: SMT-LIB 2.6 string functions written definitionally on &[u32] with i64 arithmetic.
//! R8: the SMT-LIB 2.6 literal escape grammar as a plain scanner.

pub const MAX_CHAR: u32 = 0x2FFFF;

pub fn concat(s: &[u32], t: &[u32]) -> Vec<u32> {
    let mut v = s.to_vec();
    v.extend_from_slice(t);
    v
}

/// str.substr: the longest substring of s of length at most n starting at position i;
/// empty if n is not positive or i is outside [0, |s|-1]
pub fn substr(s: &[u32], i: i64, n: i64) -> Vec<u32> {
    let len = s.len() as i64;
    if i < 0 || i >= len || n <= 0 {
        return vec![];
    }
    let j = (i + n).min(len);
    s[i as usize..j as usize].to_vec()
}

pub fn at(s: &[u32], i: i64) -> Vec<u32> {
    substr(s, i, 1)
}

pub fn occurs_at(s: &[u32], t: &[u32], n: usize) -> bool {
    n + t.len() <= s.len() && s[n..n + t.len()] == *t
}

pub fn prefixof(s: &[u32], t: &[u32]) -> bool {
    occurs_at(t, s, 0)
}

pub fn suffixof(s: &[u32], t: &[u32]) -> bool {
    s.len() <= t.len() && occurs_at(t, s, t.len() - s.len())
}

/// str.contains(s, t): t is a substring of s
pub fn contains(s: &[u32], t: &[u32]) -> bool {
    (0..=s.len()).any(|n| occurs_at(s, t, n))
}

/// str.indexof(s, t, i): least n >= i with s = w1 t w3, |w1| = n, for 0 <= i <= |s|; else -1
pub fn indexof(s: &[u32], t: &[u32], i: i64) -> i64 {
    let len = s.len() as i64;
    if i < 0 || i > len {
        return -1;
    }
    for n in i..=len {
        if occurs_at(s, t, n as usize) {
            return n;
        }
    }
    -1
}

/// str.replace(s, t, r): replace the leftmost occurrence of t (the empty t occurs at 0)
pub fn replace(s: &[u32], t: &[u32], r: &[u32]) -> Vec<u32> {
    match (0..=s.len()).find(|&n| occurs_at(s, t, n)) {
        None => s.to_vec(),
        Some(n) => {
            let mut v = s[..n].to_vec();
            v.extend_from_slice(r);
            v.extend_from_slice(&s[n + t.len()..]);
            v
        }
    }
}

/// str.replace_all: left-to-right, non-overlapping occurrences of a non-empty t
pub fn replace_all(s: &[u32], t: &[u32], r: &[u32]) -> Vec<u32> {
    if t.is_empty() {
        return s.to_vec();
    }
    let mut v = Vec::new();
    let mut p = 0;
    while p < s.len() {
        if occurs_at(s, t, p) {
            v.extend_from_slice(r);
            p += t.len();
        } else {
            v.push(s[p]);
            p += 1;
        }
    }
    v
}

pub fn is_digit_char(c: u32) -> bool {
    (0x30..=0x39).contains(&c)
}

/// str.to_int as an exact natural (None = "-1")
pub fn to_int(s: &[u32]) -> Option<u128> {
    if s.is_empty() || !s.iter().all(|&c| is_digit_char(c)) {
        return None;
    }
    let mut v: u128 = 0;
    for &c in s {
        v = v.saturating_mul(10).saturating_add((c - 0x30) as u128);
    }
    Some(v)
}

pub fn from_int(n: i64) -> Vec<u32> {
    if n < 0 {
        return vec![];
    }
    let mut digits = Vec::new();
    let mut x = n;
    loop {
        digits.push(0x30 + (x % 10) as u32);
        x /= 10;
        if x == 0 {
            break;
        }
    }
    digits.reverse();
    digits
}

// ---------------------------------------------------------------------------------------
// R8 literal grammar
// ---------------------------------------------------------------------------------------

fn hexval(c: u32) -> Option<u32> {
    char::from_u32(c).and_then(|ch| if ch.is_ascii() { ch.to_digit(16) } else { None })
}

/// if an SMT-LIB 2.6 escape sequence starts at position p of text, return (code, length)
pub fn escape_at(text: &[u32], p: usize) -> Option<(u32, usize)> {
    if text.get(p) != Some(&0x5C) || text.get(p + 1) != Some(&0x75) {
        return None;
    }
    // \\u d3 d2 d1 d0 (exactly four hex digits)
    if let (Some(a), Some(b), Some(c), Some(d)) = (
        text.get(p + 2).and_then(|&x| hexval(x)),
        text.get(p + 3).and_then(|&x| hexval(x)),
        text.get(p + 4).and_then(|&x| hexval(x)),
        text.get(p + 5).and_then(|&x| hexval(x)),
    ) {
        return Some(((a << 12) | (b << 8) | (c << 4) | d, 6));
    }
    // \u{d0} .. \u{d4d3d2d1d0} with value <= 0x2FFFF
    if text.get(p + 2) == Some(&0x7B) {
        let mut q = p + 3;
        let mut v: u32 = 0;
        let mut nd = 0;
        while nd < 5 {
            match text.get(q).and_then(|&x| hexval(x)) {
                Some(h) => {
                    v = (v << 4) | h;
                    q += 1;
                    nd += 1;
                }
                None => break,
            }
        }
        if nd >= 1 && text.get(q) == Some(&0x7D) && v <= MAX_CHAR {
            return Some((v, q + 1 - p));
        }
    }
    None
}

/// decode a literal text (given as code points): escapes decoded, everything else copied
pub fn parse_literal(text: &[u32]) -> Vec<u32> {
    let mut out = Vec::with_capacity(text.len());
    let mut p = 0;
    while p < text.len() {
        match escape_at(text, p) {
            Some((code, len)) => {
                out.push(code);
                p += len;
            }
            None => {
                out.push(text[p]);
                p += 1;
            }
        }
    }
    out
}

/// second, independent formulation of R8 used by selftest: longest-match table of escape shapes
pub fn parse_literal_alt(text: &[u32]) -> Vec<u32> {
    let is_hex = |c: u32| hexval(c).is_some();
    let mut out = Vec::new();
    let mut p = 0;
    let n = text.len();
    while p < n {
        let mut matched = false;
        if text[p] == 0x5C && p + 1 < n && text[p + 1] == 0x75 {
            // shape A: exactly four hex digits
            if p + 6 <= n && text[p + 2..p + 6].iter().all(|&c| is_hex(c)) {
                let v = text[p + 2..p + 6].iter().fold(0u32, |a, &c| a * 16 + hexval(c).unwrap());
                out.push(v);
                p += 6;
                matched = true;
            } else if p + 2 < n && text[p + 2] == 0x7B {
                // shape B: braces with k = 1..5 digits
                for k in 1..=5usize {
                    if p + 3 + k < n && text[p + 3..p + 3 + k].iter().all(|&c| is_hex(c)) && text[p + 3 + k] == 0x7D {
                        let v = text[p + 3..p + 3 + k].iter().fold(0u32, |a, &c| a * 16 + hexval(c).unwrap());
                        if v <= MAX_CHAR {
                            out.push(v);
                            p += 4 + k;
                            matched = true;
                        }
                        break;
                    }
                }
            }
        }
        if !matched {
            out.push(text[p]);
            p += 1;
        }
    }
    out
}
