#![no_main]
//! One libFuzzer target for all properties: the fuzzer's byte string IS the tape; the semantic
//! oracle (the same `run` function the proptest engine drives) is inside the target, so libFuzzer
//! searches for property violations, not just crashes.
//!   VERIF_PROP   property id (C01..C20)
//!   VERIF_KNOWN  comma separated failure classes to tolerate (known findings)
use libfuzzer_sys::fuzz_target;
use std::sync::OnceLock;
use vcheck::runner::{self, Cx, Known, Stats};

struct Setup {
    id: String,
    run: runner::PropFn,
    known: Known,
    max_len: usize,
}

static SETUP: OnceLock<Setup> = OnceLock::new();

fn setup() -> &'static Setup {
    SETUP.get_or_init(|| {
        let id = std::env::var("VERIF_PROP").expect("VERIF_PROP not set");
        let prop = vcheck::registry().into_iter().find(|p| p.id == id).expect("unknown property");
        let known = Known { classes: std::env::var("VERIF_KNOWN").unwrap_or_default().split(',').filter(|x| !x.is_empty()).map(|x| x.to_string()).collect() };
        runner::install_quiet_panic_hook();
        Setup { id, run: prop.run, known, max_len: prop.tape_len * 2 }
    })
}

fuzz_target!(|data: &[u8]| {
    let s = setup();
    if data.len() > s.max_len {
        return;
    }
    let cx = Cx { render: false, profile: "fuzz", thorough: true };
    let o = runner::run_case(&s.id, s.run, data, &cx);
    let mut scratch = Stats::default();
    if let Some(f) = runner::triage(&o, &s.known, &mut scratch) {
        // restore the default hook so that libFuzzer sees a normal abort with a message
        let _ = std::panic::take_hook();
        eprintln!("PROPERTY VIOLATION {}: {}", f.class, f.msg);
        std::process::abort();
    }
});
