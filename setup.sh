#!/bin/sh
# Offline build of the verification harness (both profiles) against /repo's current tree.
set -e
cd "$(dirname "$0")"
export CARGO_NET_OFFLINE=true
exec ./check --build
