#!/bin/sh
# Offline build of the verification harness (both profiles) against /repo's current tree, and of the
# libFuzzer target used by the thorough tier (best effort: the quick tier does not need it).
set -e
cd "$(dirname "$0")"
export CARGO_NET_OFFLINE=true
./check --build
( cd harness/fuzz && cargo +nightly fuzz build -s none --fuzz-dir . >/dev/null 2>&1 ) || echo "note: fuzz target not built (thorough tier will retry)"
